//! BOUNDED stand-in (not a proof) for property C09 on the composition of an operation's Variables type:
//! crates/printer/src/operation_type_printer/type_printer.rs get_type_for_variable_definitions builds one object type per
//! variable and folds them with crates/printer/src/ts_types/ts_types_util.rs ts_intersection (fast_equal, iterator chains
//! over TSType trees that no contract reaches), with options that arrive through OperationTypePrinterOptions::from_config.
//! (The mapping of ONE GraphQL input type to its TypeScript type IS proved: units tstype, vardefs_ts.)
//! The real `nitrogql generate` is run on one project per (list of variable definitions, allowUndefinedAsOptionalInput) of
//! a stated finite family; the emitted `QVariables` type is read by an independent reader and must declare exactly one
//! property per variable, in any order, with the optionality and the type the property states.
//! usage: variables <quick|thorough> [--one <index>]     env: VX_CLI
use std::collections::BTreeMap;

use vx_bounded::cli;

#[derive(Clone, Debug, PartialEq)]
enum G {
    Named(&'static str),
    List(Box<G>),
    NonNull(Box<G>),
}
fn sdl(t: &G) -> String {
    match t {
        G::Named(n) => n.to_string(),
        G::List(i) => format!("[{}]", sdl(i)),
        G::NonNull(i) => format!("{}!", sdl(i)),
    }
}
/// structure of a TypeScript type of the subset the printer uses for variables
#[derive(Clone, Debug, PartialEq, Eq, PartialOrd, Ord)]
enum T {
    Ref(String),
    Null,
    Undefined,
    Array(Box<T>),
    Union(Vec<T>),
}
fn union(mut v: Vec<T>) -> T {
    let mut flat = vec![];
    for x in v.drain(..) {
        match x {
            T::Union(xs) => flat.extend(xs),
            x => flat.push(x),
        }
    }
    flat.sort();
    flat.dedup();
    if flat.len() == 1 { flat.pop().unwrap() } else { T::Union(flat) }
}
/// what the property states: non-null -> the type itself, nullable -> T | null, lists -> arrays of the element type,
/// named types -> the schema declaration's input namespace
fn expected(t: &G) -> T {
    fn inner(t: &G) -> T {
        match t {
            G::Named(n) => T::Ref(n.to_string()),
            G::List(i) => T::Array(Box::new(expected(i))),
            G::NonNull(i) => inner(i),
        }
    }
    match t {
        G::NonNull(i) => inner(i),
        other => union(vec![inner(other), T::Null]),
    }
}
#[derive(Default)]
struct P {
    c: Vec<char>,
    i: usize,
    /// inside the schema declaration's namespace the references are local names
    local: bool,
}
impl P {
    fn ws(&mut self) {
        while self.i < self.c.len() && self.c[self.i].is_whitespace() {
            self.i += 1;
        }
    }
    fn eat(&mut self, s: &str) -> bool {
        self.ws();
        let cs: Vec<char> = s.chars().collect();
        if self.c[self.i..].starts_with(&cs) {
            self.i += cs.len();
            true
        } else {
            false
        }
    }
    fn union(&mut self) -> Result<T, String> {
        let mut parts = vec![self.postfix()?];
        while self.eat("|") {
            parts.push(self.postfix()?);
        }
        Ok(union(parts))
    }
    fn postfix(&mut self) -> Result<T, String> {
        let mut t = self.primary()?;
        while self.eat("[]") {
            t = T::Array(Box::new(t));
        }
        Ok(t)
    }
    fn primary(&mut self) -> Result<T, String> {
        self.ws();
        if self.eat("(") {
            let t = self.union()?;
            if !self.eat(")") {
                return Err(format!("expected ) at {}", self.i));
            }
            return Ok(t);
        }
        if self.eat("readonly ") {
            return self.postfix();
        }
        let start = self.i;
        while self.i < self.c.len() && (self.c[self.i].is_alphanumeric() || self.c[self.i] == '_' || self.c[self.i] == '.') {
            self.i += 1;
        }
        let word: String = self.c[start..self.i].iter().collect();
        match word.as_str() {
            "" => Err(format!("unexpected text at {}: {:?}", start, self.c[start..].iter().take(20).collect::<String>())),
            "null" => Ok(T::Null),
            "undefined" => Ok(T::Undefined),
            w if self.local && !w.contains('.') => Ok(T::Ref(w.to_string())),
            w => match w.strip_prefix("Schema.__OperationInput.") {
                Some(n) => Ok(T::Ref(n.to_string())),
                None => Err(format!("a type outside the input namespace: {w}")),
            },
        }
    }
}
/// properties of `type QVariables = { .. };` as (key, optional, type)
fn read_variables(ts: &str) -> Result<Vec<(String, bool, T)>, String> {
    let start = ts.find("type QVariables = ").ok_or("no QVariables type")?;
    let body = &ts[start + "type QVariables = ".len()..];
    let end = body.find(";\n\n").ok_or("unterminated QVariables type")?;
    let text = body[..end].trim();
    if text == "{}" {
        return Ok(vec![]);
    }
    // the printer writes an object type, or (after a change) an intersection of object types: accept both
    let mut out = vec![];
    for part in text.split("} & {") {
        let part = part.trim().trim_start_matches('{').trim_end_matches('}');
        for line in part.split(';') {
            let line = line.trim();
            if line.is_empty() {
                continue;
            }
            let line = line.strip_prefix("readonly ").ok_or(format!("a property that is not readonly: {line}"))?;
            let (key, ty) = line.split_once(':').ok_or(format!("not a property: {line}"))?;
            let (key, optional) = match key.trim().strip_suffix('?') {
                Some(k) => (k.to_string(), true),
                None => (key.trim().to_string(), false),
            };
            let mut p = P { c: ty.chars().collect(), i: 0, local: false };
            let t = p.union()?;
            p.ws();
            if p.i != p.c.len() {
                return Err(format!("trailing text in the type of {key}: {ty}"));
            }
            out.push((key, optional, t));
        }
    }
    Ok(out)
}

struct Case {
    label: String,
    vars: Vec<(String, G, Option<&'static str>)>,
    allow_undefined: Option<bool>,
}
fn cases(thorough: bool) -> Vec<Case> {
    let n = |x| G::Named(x);
    let nn = |x: G| G::NonNull(Box::new(x));
    let l = |x: G| G::List(Box::new(x));
    let types: Vec<(G, Option<&'static str>)> = vec![
        (nn(n("Int")), None),
        (n("Int"), None),
        (nn(l(nn(n("Int")))), None),
        (l(n("Int")), None),
        (l(nn(l(n("Int")))), None),
        (nn(n("Color")), None),
        (n("Color"), None),
        (nn(n("In")), None),
        (n("In"), None),
        (n("Date"), None),
        (nn(n("String")), None),
        (nn(n("Int")), Some("3")),
        (n("String"), Some("\"x\"")),
    ];
    let mut lists: Vec<Vec<usize>> = vec![vec![]];
    for a in 0..types.len() {
        lists.push(vec![a]);
        for b in 0..types.len() {
            lists.push(vec![a, b]);
            if thorough || (a + b) % 4 == 0 {
                lists.push(vec![a, b, a]);
                lists.push(vec![a, a, b]);
            }
        }
        lists.push(vec![a, a, a, a]);
    }
    let mut out = vec![];
    for idx in lists {
        for allow in [None, Some(true), Some(false)] {
            if !thorough && allow.is_none() && idx.len() > 1 {
                continue;
            }
            let vars: Vec<(String, G, Option<&'static str>)> = idx.iter().enumerate().map(|(k, i)| (format!("v{k}"), types[*i].0.clone(), types[*i].1)).collect();
            let label = format!("({}) allowUndefinedAsOptionalInput={}", vars.iter().map(|(n, t, d)| format!("${n}: {}{}", sdl(t), d.map(|d| format!(" = {d}")).unwrap_or_default())).collect::<Vec<_>>().join(", "), allow.map(|b| b.to_string()).unwrap_or("(default)".into()));
            out.push(Case { label, vars, allow_undefined: allow });
        }
    }
    out
}
const SCHEMA: &str = "type Query { q(x: X): Int }\ninput In { req: Int! opt: String }\nenum Color { RED GREEN }\nscalar Date\n";
/// the same definitions as the fields of an input object type (`input X { v0: T0 = d0 .. }`; one field `only: Int` when empty)
fn input_x(c: &Case) -> String {
    if c.vars.is_empty() {
        return "input X { only: Int }\n".to_string();
    }
    format!("input X {{ {} }}\n", c.vars.iter().map(|(n, t, d)| format!("{n}: {}{}", sdl(t), d.map(|d| format!(" = {d}")).unwrap_or_default())).collect::<Vec<_>>().join(" "))
}
/// properties of `export type <name> = { .. };` inside `export declare namespace __OperationInput { .. }`
fn read_input_object(schema_ts: &str, name: &str) -> Result<Vec<(String, bool, T)>, String> {
    let ns = schema_ts.find("export declare namespace __OperationInput {").ok_or("no __OperationInput namespace")?;
    let body = &schema_ts[ns..];
    let body = &body[..body.find("\n}\n").ok_or("unterminated namespace")?];
    let marker = format!("export type {name} = {{");
    let st = body.find(&marker).ok_or(format!("no declaration of {name}"))?;
    let rest = &body[st + marker.len()..];
    let end = rest.find("};").ok_or("unterminated declaration")?;
    let mut out = vec![];
    for line in rest[..end].split(';') {
        let line = line.trim();
        if line.is_empty() {
            continue;
        }
        let line = line.strip_prefix("readonly ").ok_or(format!("a property that is not readonly: {line}"))?;
        let (key, ty) = line.split_once(':').ok_or(format!("not a property: {line}"))?;
        let (key, optional) = match key.trim().strip_suffix('?') {
            Some(k) => (k.to_string(), true),
            None => (key.trim().to_string(), false),
        };
        let ty = ty.replace("Schema.__OperationInput.", "");
        // inside the namespace the references are local names
        let mut p = P { c: ty.chars().collect(), i: 0, local: true };
        let t = p.union()?;
        p.ws();
        if p.i != p.c.len() {
            return Err(format!("trailing text in the type of {key}: {ty}"));
        }
        out.push((key, optional, t));
    }
    Ok(out)
}

fn main() {
    let args: Vec<String> = std::env::args().collect();
    let thorough = args.get(1).map(|a| a == "thorough").unwrap_or(false);
    let only: Option<usize> = args.iter().position(|a| a == "--one").and_then(|i| args.get(i + 1)).and_then(|x| x.parse().ok());
    let clip = std::env::var("VX_CLI").unwrap_or_default();
    let cases = cases(thorough);
    let tmp = std::env::temp_dir().join(format!("vx-variables-{}", std::process::id()));
    let op_of = |c: &Case| {
        let defs = c.vars.iter().map(|(n, t, d)| format!("${n}: {}{}", sdl(t), d.map(|d| format!(" = {d}")).unwrap_or_default())).collect::<Vec<_>>().join(", ");
        if c.vars.is_empty() { "query Q { q }\n".to_string() } else { format!("query Q({defs}) {{ q }}\n") }
    };
    let results = cli::par_map(cases.len(), &tmp, |i, dir| {
        if let Some(o) = only {
            if o != i {
                return None;
            }
        }
        let c = &cases[i];
        let config = format!(
            "schema: ./schema/*.graphql\ndocuments: ./ops/*.graphql\nextensions:\n  nitrogql:\n    generate:\n      schemaOutput: ./out/schema.d.ts\n      type:\n{}        scalarTypes:\n          Date: string\n",
            c.allow_undefined.map(|b| format!("        allowUndefinedAsOptionalInput: {b}\n")).unwrap_or_default()
        );
        let out = cli::run(&clip, dir, &[("graphql.config.yaml".into(), config), ("schema/s.graphql".into(), format!("{SCHEMA}{}", input_x(c))), ("ops/q.graphql".into(), op_of(c)), ("out/.keep".into(), String::new())], "generate");
        let ts = std::fs::read_to_string(dir.join("ops/q.d.graphql.ts")).ok();
        let schema_ts = std::fs::read_to_string(dir.join("out/schema.d.ts")).ok();
        Some((out, ts, schema_ts))
    });
    let _ = std::fs::remove_dir_all(&tmp);
    let mut failures = vec![];
    let mut per_family: BTreeMap<String, usize> = BTreeMap::new();
    let mut evaluations = 0;
    let mut checked_vars = 0usize;
    let _ = P::default();
    for (i, (c, r)) in cases.iter().zip(results.iter()).enumerate() {
        let Some((out, ts, schema_ts)) = r else { continue };
        evaluations += 1;
        let input = format!("[{}]\n{}", c.label, op_of(c));
        let mut fail = |sig: String, why: String, got: String| failures.push((i, sig, input.clone(), why, got));
        if out.timed_out || out.panicked() || out.stderr.starts_with("harness:") {
            fail("generate panics or does not terminate".into(), String::new(), out.stderr.chars().take(500).collect());
            continue;
        }
        if !out.stderr.contains("'generate' finished") {
            fail("generate fails on a valid operation".into(), String::new(), out.stderr.chars().take(600).collect());
            continue;
        }
        let ts = ts.clone().unwrap_or_default();
        let block: String = ts.find("type QVariables = ").map(|s| ts[s..].chars().take(700).collect()).unwrap_or_default();
        let props = match read_variables(&ts) {
            Ok(p) => p,
            Err(e) => {
                fail("harness: the Variables type is outside the TypeScript subset this reader understands".into(), e, block);
                continue;
            }
        };
        let allow = c.allow_undefined.unwrap_or(true);
        let mut bad = false;
        for (name, t, default) in &c.vars {
            checked_vars += 1;
            let found: Vec<&(String, bool, T)> = props.iter().filter(|(k, _, _)| k == name).collect();
            if found.len() != 1 {
                fail(format!("a declared variable has {} properties in the Variables type", if found.is_empty() { "no".to_string() } else { found.len().to_string() }), format!("${name}"), block.clone());
                bad = true;
                break;
            }
            let (_, optional, got) = found[0];
            let nullable = !matches!(t, G::NonNull(_));
            // nullable variables may be omitted exactly when the option is on; non-null ones never
            // a non-null variable WITH a default may be declared required or omittable (the server fills the default in):
            // the property only fixes that non-null variables WITHOUT default are required
            let want_optional = if !nullable && default.is_some() { *optional } else { nullable && allow };
            if *optional != want_optional {
                fail(format!("a {} variable {} be omitted although allowUndefinedAsOptionalInput is {}", if nullable { "nullable" } else { "non-null" }, if *optional { "may" } else { "may not" }, if allow { "on" } else { "off" }), format!("${name}: {}", sdl(t)), block.clone());
                bad = true;
                break;
            }
            let want = if want_optional { union(vec![expected(t), T::Undefined]) } else { expected(t) };
            if *got != want {
                fail(format!("the type of a variable in the Variables type is not the one its GraphQL type maps to ({})", if nullable { "nullable variable" } else { "non-null variable" }), format!("${name}: {} should be {want:?}, is {got:?}", sdl(t)), block.clone());
                bad = true;
                break;
            }
        }
        if bad {
            continue;
        }
        if props.len() != c.vars.len() {
            fail("the Variables type has a property that is not a declared variable".into(), format!("{:?}", props.iter().map(|p| &p.0).collect::<Vec<_>>()), block);
            continue;
        }
        // the same definitions as fields of `input X`: its declaration in the input namespace
        let schema_ts = schema_ts.clone().unwrap_or_default();
        let decl_block: String = schema_ts.find("export type X = {").map(|s| schema_ts[s..].chars().take(600).collect()).unwrap_or_default();
        let fields = match read_input_object(&schema_ts, "X") {
            Ok(f) => f,
            Err(e) => {
                fail("harness: the declaration of the input object is outside the TypeScript subset this reader understands".into(), e, decl_block);
                continue;
            }
        };
        let mut bad = false;
        for (name, t, default) in &c.vars {
            let found: Vec<&(String, bool, T)> = fields.iter().filter(|(k, _, _)| k == name).collect();
            if found.len() != 1 {
                fail(format!("an input field has {} properties in the declaration of its input object", if found.is_empty() { "no".to_string() } else { found.len().to_string() }), format!("X.{name}"), decl_block.clone());
                bad = true;
                break;
            }
            let (_, optional, got) = found[0];
            let nullable = !matches!(t, G::NonNull(_));
            // as for variables: a non-null field WITH a default may be required or omittable, but never null
            let want_optional = if !nullable && default.is_some() { *optional } else { nullable && allow };
            if *optional != want_optional {
                fail(format!("a {} input field {} be omitted although allowUndefinedAsOptionalInput is {}", if nullable { "nullable" } else { "non-null" }, if *optional { "may" } else { "may not" }, if allow { "on" } else { "off" }), format!("X.{name}: {}", sdl(t)), decl_block.clone());
                bad = true;
                break;
            }
            let want = if want_optional { union(vec![expected(t), T::Undefined]) } else { expected(t) };
            if *got != want {
                fail(format!("the type of an input field in the declaration is not the one its GraphQL type maps to ({})", if nullable { "nullable field" } else { "non-null field" }), format!("X.{name}: {} should be {want:?}, is {got:?}", sdl(t)), decl_block.clone());
                bad = true;
                break;
            }
        }
        if bad {
            continue;
        }
        if !c.vars.is_empty() && fields.len() != c.vars.len() {
            fail("the declaration of an input object has a property that is not a field".into(), format!("{:?}", fields.iter().map(|p| &p.0).collect::<Vec<_>>()), decl_block);
            continue;
        }
        // enum: exactly the member literals
        let ns = schema_ts.find("export declare namespace __OperationInput {").map(|s| &schema_ts[s..]).unwrap_or("");
        let color: Option<&str> = ns.find("export type Color = ").map(|s| &ns[s + "export type Color = ".len()..]).and_then(|r| r.split(';').next());
        let mut members: Vec<String> = color.unwrap_or("").split('|').map(|m| m.trim().to_string()).collect();
        members.sort();
        if members != vec!["\"GREEN\"".to_string(), "\"RED\"".to_string()] {
            fail("the declaration of an enum in the input namespace is not the union of its member literals".into(), format!("Color = {color:?}"), String::new());
            continue;
        }
        *per_family.entry("agreed".into()).or_default() += 1;
    }
    per_family.insert("operations".into(), evaluations);
    per_family.insert("variables checked".into(), checked_vars);
    let samples: Vec<String> = cases.iter().enumerate().filter(|(i, _)| i % (cases.len() / 6).max(1) == 2).take(6).map(|(i, c)| format!("[#{i}] {}", c.label)).collect();
    cli::report(evaluations, per_family, samples, failures);
}
