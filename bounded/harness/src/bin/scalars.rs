//! BOUNDED stand-in (not a proof) for properties C02 / C09 on crates/printer/src/schema_type_printer/context.rs
//! get_scalar_types (a chain of filter_map / find / and_then adaptors with nested closures that the verifier cannot
//! specify): which TypeScript type a custom scalar gets in each of the four namespaces of the schema declaration file.
//! The real `nitrogql generate` is run on every project of a stated finite family and the `export type <Scalar> = ..`
//! aliases of __OperationInput / __OperationOutput / __ResolverInput / __ResolverOutput are compared with an
//! independent reading of the documented rule (configuration wins over @nitrogql_ts_type; single / send-receive /
//! separate forms).
//! usage: scalars <quick|thorough> [--one <index>]     env: VX_CLI
use std::collections::BTreeMap;

use vx_bounded::cli;

#[derive(Clone, Copy, PartialEq, Debug)]
enum Conf {
    None,
    Single,
    SendReceive,
    Separate,
}
#[derive(Clone, Copy, PartialEq, Debug)]
enum Dir {
    None,
    Full,
    FullReordered,
    MissingOne(usize),
    NonString(usize),
    NoArguments,
    OtherDirectiveFirst,
}
const TARGETS: [&str; 4] = ["__OperationInput", "__OperationOutput", "__ResolverInput", "__ResolverOutput"];
const DIR_ARGS: [(&str, &str); 4] = [("operationInput", "DOI"), ("operationOutput", "DOO"), ("resolverInput", "DRI"), ("resolverOutput", "DRO")];

/// expected alias per namespace (in TARGETS order), or None if no TypeScript type is provided (generate must fail)
fn expected(c: Conf, d: Dir) -> Option<[&'static str; 4]> {
    // the built-in definition of @nitrogql_ts_type declares four String! arguments: an incomplete or ill-typed use is
    // rejected by `check` whatever the configuration says
    if matches!(d, Dir::MissingOne(_) | Dir::NonString(_) | Dir::NoArguments) {
        return None;
    }
    match c {
        Conf::Single => Some(["CX", "CX", "CX", "CX"]),
        // send: what this side sends (operation input, resolver output); receive: what it receives
        Conf::SendReceive => Some(["CS", "CR", "CR", "CS"]),
        Conf::Separate => Some(["COI", "COO", "CRI", "CRO"]),
        Conf::None => match d {
            Dir::Full | Dir::FullReordered | Dir::OtherDirectiveFirst => Some(["DOI", "DOO", "DRI", "DRO"]),
            _ => None,
        },
    }
}

struct Case {
    label: String,
    config: String,
    schema: String,
    expect: Option<[&'static str; 4]>,
    /// the scalar whose aliases are compared (default: the custom scalar Sc)
    name: &'static str,
}

fn cases() -> Vec<Case> {
    let mut v = vec![];
    let dirs = [Dir::None, Dir::Full, Dir::FullReordered, Dir::MissingOne(0), Dir::MissingOne(1), Dir::MissingOne(2), Dir::MissingOne(3), Dir::NonString(0), Dir::NonString(3), Dir::NoArguments, Dir::OtherDirectiveFirst];
    for c in [Conf::None, Conf::Single, Conf::SendReceive, Conf::Separate] {
        for d in dirs {
            for position in 0..2 {
                let conf = match c {
                    Conf::None => String::new(),
                    Conf::Single => "          Sc: CX\n".into(),
                    Conf::SendReceive => "          Sc:\n            send: CS\n            receive: CR\n".into(),
                    Conf::Separate => "          Sc:\n            resolverOutput: CRO\n            operationInput: COI\n            resolverInput: CRI\n            operationOutput: COO\n".into(),
                };
                let config = format!(
                    "schema: ./schema/*.graphql\nextensions:\n  nitrogql:\n    generate:\n      schemaOutput: ./out/schema.d.ts\n      type:\n        scalarTypes:\n          Other: OX\n{conf}"
                );
                let arg = |i: usize| format!("{}: \"{}\"", DIR_ARGS[i].0, DIR_ARGS[i].1);
                let directive = match d {
                    Dir::None => String::new(),
                    Dir::Full => format!(" @nitrogql_ts_type({}, {}, {}, {})", arg(0), arg(1), arg(2), arg(3)),
                    Dir::FullReordered => format!(" @nitrogql_ts_type({}, {}, {}, {})", arg(3), arg(1), arg(0), arg(2)),
                    Dir::MissingOne(k) => format!(" @nitrogql_ts_type({})", (0..4).filter(|i| *i != k).map(arg).collect::<Vec<_>>().join(", ")),
                    Dir::NonString(k) => format!(" @nitrogql_ts_type({})", (0..4).map(|i| if i == k { format!("{}: 1", DIR_ARGS[i].0) } else { arg(i) }).collect::<Vec<_>>().join(", ")),
                    Dir::NoArguments => " @nitrogql_ts_type".into(),
                    Dir::OtherDirectiveFirst => format!(" @specifiedBy(url: \"u\") @nitrogql_ts_type({}, {}, {}, {})", arg(0), arg(1), arg(2), arg(3)),
                };
                // the scalar under test sits before or after another custom scalar and the types that use it
                let sc = format!("scalar Sc{directive}\n");
                let other = "scalar Other\n";
                let schema = if position == 0 {
                    format!("{sc}{other}type Query {{ a(x: Sc, y: Other): Sc b: Other }}\n")
                } else {
                    format!("type Query {{ a(x: Sc, y: Other): Sc b: Other }}\n{other}{sc}")
                };
                v.push(Case { label: format!("config {c:?}, directive {d:?}, scalar defined {}", if position == 0 { "first" } else { "last" }), config, schema, expect: expected(c, d), name: "Sc" });
            }
        }
    }
    // type expressions that name schema types (the printer must keep them pointing at the ambient type, not at the
    // schema type of the same name declared in the generated file)
    let shadow_schema = "type Query { a(x: Sc, f: Filter): Sc u: User c: Color }\ntype User { id: ID }\ninput Filter { w: Sc }\nenum Color { RED }\nscalar Sc\nscalar Other\n";
    let shadow_confs: [(&str, String, [&'static str; 4]); 6] = [
        ("single naming the scalar itself", "          Sc: Sc\n".into(), ["Sc", "Sc", "Sc", "Sc"]),
        ("send names the scalar, receive does not", "          Sc:\n            send: Sc | string\n            receive: string\n".into(), ["Sc | string", "string", "string", "Sc | string"]),
        ("receive names the scalar, send does not", "          Sc:\n            send: string\n            receive: Sc | string\n".into(), ["string", "Sc | string", "Sc | string", "string"]),
        ("separate, each target names a different schema type", "          Sc:\n            operationInput: User\n            operationOutput: Filter\n            resolverInput: Color\n            resolverOutput: Query\n".into(), ["User", "Filter", "Color", "Query"]),
        ("only the operation input names a schema type", "          Sc:\n            operationInput: User | null\n            operationOutput: string\n            resolverInput: string\n            resolverOutput: string\n".into(), ["User | null", "string", "string", "string"]),
        ("only the resolver output names a schema type", "          Sc:\n            operationInput: string\n            operationOutput: string\n            resolverInput: string\n            resolverOutput: Color[]\n".into(), ["string", "string", "string", "Color[]"]),
    ];
    for (label, conf, exp) in shadow_confs {
        let config = format!(
            "schema: ./schema/*.graphql\nextensions:\n  nitrogql:\n    generate:\n      schemaOutput: ./out/schema.d.ts\n      type:\n        scalarTypes:\n          Other: OX\n{conf}"
        );
        v.push(Case { label: format!("type expression naming schema types: {label}"), config, schema: shadow_schema.into(), expect: Some(exp), name: "Sc" });
    }
    // built-in scalars: the configuration may re-map them like any other scalar; left alone they keep their defaults
    let builtin_schema = "type Query { a(x: ID, n: Int, s: String): ID b: Other }\nscalar Other\n";
    let defaults: [(&str, [&'static str; 4]); 3] = [("ID", ["string | number", "string", "string", "string | number"]), ("Int", ["number", "number", "number", "number"]), ("String", ["string", "string", "string", "string"])];
    for (name, dflt) in defaults {
        let forms: [(&str, String, [&'static str; 4]); 4] = [
            ("left alone", String::new(), dflt),
            ("single", format!("          {name}: CX\n"), ["CX", "CX", "CX", "CX"]),
            ("send / receive", format!("          {name}:\n            send: CS\n            receive: CR\n"), ["CS", "CR", "CR", "CS"]),
            ("separate", format!("          {name}:\n            resolverOutput: CRO\n            operationInput: COI\n            resolverInput: CRI\n            operationOutput: COO\n"), ["COI", "COO", "CRI", "CRO"]),
        ];
        for (label, conf, exp) in forms {
            let config = format!(
                "schema: ./schema/*.graphql\nextensions:\n  nitrogql:\n    generate:\n      schemaOutput: ./out/schema.d.ts\n      type:\n        scalarTypes:\n          Other: OX\n{conf}"
            );
            v.push(Case { label: format!("built-in scalar {name}: {label}"), config, schema: builtin_schema.into(), expect: Some(exp), name });
        }
    }
    v
}

/// `export type <name> = <alias>;` inside `export declare namespace <ns> { .. }`
fn alias_in(ts: &str, ns: &str, name: &str) -> Option<String> {
    let start = ts.find(&format!("export declare namespace {ns} {{"))?;
    let body = &ts[start..];
    let end = body.find("\n}\n").unwrap_or(body.len());
    let body = &body[..end];
    let key = format!("export type {name} = ");
    if let Some(i) = body.find(&key) {
        let rest = &body[i + key.len()..];
        return Some(rest[..rest.find(';')?].trim().to_string());
    }
    // renamed form:  type __tmp_N = RHS;  export type { __tmp_N as N};
    if body.contains(&format!("export type {{ __tmp_{name} as {name}")) {
        let key = format!("type __tmp_{name} = ");
        let i = body.find(&key)?;
        let rest = &body[i + key.len()..];
        return Some(rest[..rest.find(';')?].trim().to_string());
    }
    None
}
/// names bound by `type N =` / `export type N =` directly in a namespace body or at module level (indent = 2 or 0 spaces)
fn bound_names(ts: &str, ns: Option<&str>) -> Vec<String> {
    let (body, indent) = match ns {
        Some(ns) => {
            let Some(start) = ts.find(&format!("export declare namespace {ns} {{")) else { return vec![] };
            let b = &ts[start..];
            (&b[..b.find("\n}\n").unwrap_or(b.len())], "  ")
        }
        None => (ts, ""),
    };
    let mut v = vec![];
    for line in body.lines() {
        for kw in ["export type ", "type "] {
            if let Some(rest) = line.strip_prefix(&format!("{indent}{kw}")) {
                let id: String = rest.chars().take_while(|c| c.is_alphanumeric() || *c == '_').collect();
                if !id.is_empty() && rest[id.len()..].trim_start().starts_with('=') || rest[id.len()..].starts_with('<') {
                    v.push(id);
                }
                break;
            }
        }
    }
    v
}

fn main() {
    let args: Vec<String> = std::env::args().collect();
    let only: Option<usize> = args.iter().position(|a| a == "--one").and_then(|i| args.get(i + 1)).and_then(|x| x.parse().ok());
    let clip = std::env::var("VX_CLI").unwrap_or_default();
    let cases = cases();
    let tmp = std::env::temp_dir().join(format!("vx-scalars-{}", std::process::id()));
    let results = cli::par_map(cases.len(), &tmp, |i, dir| {
        if let Some(o) = only {
            if o != i {
                return None;
            }
        }
        let c = &cases[i];
        let out = cli::run(&clip, dir, &[("graphql.config.yaml".into(), c.config.clone()), ("schema/s.graphql".into(), c.schema.clone()), ("out/.keep".into(), String::new())], "generate");
        let ts = std::fs::read_to_string(dir.join("out/schema.d.ts")).ok();
        Some((out, ts))
    });
    let _ = std::fs::remove_dir_all(&tmp);
    let mut failures = vec![];
    let mut per_family: BTreeMap<String, usize> = BTreeMap::new();
    let mut evaluations = 0;
    for (i, (c, r)) in cases.iter().zip(results.iter()).enumerate() {
        let Some((out, ts)) = r else { continue };
        evaluations += 1;
        let input = format!("[{}]\n--- graphql.config.yaml\n{}--- schema\n{}", c.label, c.config, c.schema);
        if out.timed_out || out.panicked() || out.stderr.starts_with("harness:") {
            failures.push((i, "generate panics or does not terminate".to_string(), input, String::new(), out.stderr.chars().take(500).collect()));
            continue;
        }
        let generated = out.stderr.contains("'generate' finished");
        match (&c.expect, generated) {
            (None, false) => {
                *per_family.entry("agreed: no TypeScript type provided, generate reports it".into()).or_default() += 1;
            }
            (None, true) => {
                let got: Vec<String> = TARGETS.iter().map(|t| alias_in(ts.as_deref().unwrap_or(""), t, c.name).unwrap_or_else(|| "-".into())).collect();
                failures.push((i, "a scalar without a complete TypeScript type specification is given a type".into(), input, "neither the configuration nor a complete @nitrogql_ts_type provides the four types".into(), format!("{got:?}")));
            }
            (Some(_), false) => {
                failures.push((i, "generate fails although the scalar's TypeScript type is provided".into(), input, "the configuration or a complete @nitrogql_ts_type provides the types".into(), out.stderr.chars().take(300).collect()));
            }
            (Some(exp), true) => {
                let ts = ts.clone().unwrap_or_default();
                let got: Vec<String> = TARGETS.iter().map(|t| alias_in(&ts, t, c.name).unwrap_or_else(|| "-".into())).collect();
                let other: Vec<String> = TARGETS.iter().map(|t| alias_in(&ts, t, "Other").unwrap_or_else(|| "-".into())).collect();
                let wrong: Vec<String> = (0..4).filter(|k| got[*k] != exp[*k]).map(|k| TARGETS[k].to_string()).collect();
                // an identifier of a configured type expression that is also a schema type must not be bound in the
                // namespace that uses it, nor at module level (it would capture the ambient type the user means)
                let schema_names: Vec<&str> = c.schema.lines().filter_map(|l| { let mut w = l.split_whitespace(); match (w.next(), w.next()) { (Some("type" | "input" | "enum" | "scalar" | "interface" | "union"), Some(n)) => Some(n), _ => None } }).collect();
                let mut captured = vec![];
                for k in 0..4 {
                    for id in exp[k].split(|ch: char| !(ch.is_alphanumeric() || ch == '_')).filter(|w| !w.is_empty()) {
                        if schema_names.contains(&id) {
                            if bound_names(&ts, Some(TARGETS[k])).iter().any(|b| b == id) {
                                captured.push(format!("{id} is bound inside {}", TARGETS[k]));
                            }
                            if bound_names(&ts, None).iter().any(|b| b == id) {
                                captured.push(format!("{id} (used in {}) is bound at module level", TARGETS[k]));
                            }
                        }
                    }
                }
                if !captured.is_empty() && wrong.is_empty() {
                    failures.push((i, "a configured type expression is captured by a schema type of the same name".into(), input, format!("expected {exp:?} to keep denoting ambient types"), captured.join("; ")));
                } else if !wrong.is_empty() {
                    failures.push((i, format!("wrong TypeScript type for the scalar in {}", wrong.join(", ")), input, format!("expected {exp:?} in {TARGETS:?}"), format!("{got:?}")));
                } else if other.iter().any(|o| o != "OX") {
                    failures.push((i, "the other scalar's type changed".into(), input, "expected OX everywhere".into(), format!("{other:?}")));
                } else {
                    *per_family.entry("agreed: aliases as expected".into()).or_default() += 1;
                }
            }
        }
    }
    per_family.insert("projects".into(), evaluations);
    let samples: Vec<String> = cases.iter().enumerate().filter(|(i, _)| i % 11 == 3).take(8).map(|(i, c)| format!("[#{i}] {} -> {:?}", c.label, c.expect)).collect();
    cli::report(evaluations, per_family, samples, failures);
}
