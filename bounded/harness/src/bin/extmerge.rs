//! BOUNDED stand-in (not a proof) for property C11 on the parts of crates/semantics/src/schema_extension_resolver that
//! are not under contract: extension_list.rs (ExtensionList: IndexMap registries, duplicate / orphan detection, position
//! sort) and resolve_schema_extensions' dispatch and final concatenation.  (The seven merge_*_definition functions ARE
//! proved, unit merge.)  Every document of a stated finite family is parsed and resolved by the real code; the result
//! must be the reference merge - per kind and name: the definition with the components of its extensions appended in
//! document order - as a multiset of definitions compared up to positions, and resolution must fail exactly when a
//! name is defined twice within a kind or an extension has no definition of its kind.
//! usage: extmerge <quick|thorough> [--one <index>]
use std::collections::BTreeMap;

use nitrogql_ast::type_system::{TypeSystemDefinition, TypeSystemDefinitionOrExtension};
use nitrogql_parser::parse_type_system_document;
use nitrogql_semantics::resolve_schema_extensions;
use vx_bounded::cli;

fn erase_pos(s: &str) -> String {
    let mut out = String::with_capacity(s.len());
    let mut rest = s;
    while let Some(i) = rest.find("Pos {") {
        out.push_str(&rest[..i]);
        out.push('_');
        match rest[i..].find('}') {
            Some(j) => rest = &rest[i + j + 1..],
            None => rest = "",
        }
    }
    out.push_str(rest);
    out
}

/// one definition or extension, as lists of components
#[derive(Clone, Debug)]
struct Item {
    kind: &'static str, // schema scalar type interface union enum input directive
    name: String,
    extension: bool,
    dirs: Vec<String>,
    implements: Vec<String>,
    body: Vec<String>, // fields / members / values / root operation types
    description: bool,
}
fn render(i: &Item) -> String {
    let ext = if i.extension { "extend " } else { "" };
    let desc = if i.description && !i.extension { "\"doc\" " } else { "" };
    let dirs: String = i.dirs.iter().map(|d| format!(" @{d}")).collect();
    let imp = if i.implements.is_empty() { String::new() } else { format!(" implements {}", i.implements.join(" & ")) };
    match i.kind {
        "schema" => format!("{desc}{ext}schema{dirs}{}", if i.body.is_empty() { String::new() } else { format!(" {{ {} }}", i.body.join(" ")) }),
        "scalar" => format!("{desc}{ext}scalar {}{dirs}", i.name),
        "type" | "interface" | "input" | "enum" => format!("{desc}{ext}{} {}{imp}{dirs}{}", i.kind, i.name, if i.body.is_empty() { String::new() } else { format!(" {{ {} }}", i.body.join(" ")) }),
        "union" => format!("{desc}{ext}union {}{dirs}{}", i.name, if i.body.is_empty() { String::new() } else { format!(" = {}", i.body.join(" | ")) }),
        "directive" => format!("directive @{} on FIELD", i.name),
        k => panic!("kind {k}"),
    }
}
fn body_item(kind: &str, tag: &str) -> String {
    match kind {
        "schema" => match tag { "0" => "query: Q".into(), "1" => "mutation: M".into(), "2" => "subscription: S".into(), _ => format!("query: Q{tag}") },
        "type" | "interface" | "input" => format!("f{tag}: Int"),
        "union" => format!("M{tag}"),
        "enum" => format!("V{tag}"),
        _ => String::new(),
    }
}
/// definition (tag 0) or k-th extension of (kind, name); `variant` selects which components the extension carries
fn make(kind: &'static str, name: &str, k: usize, variant: usize) -> Item {
    let tag = format!("{k}");
    let extension = k > 0;
    let has_body = kind != "scalar";
    let has_impl = kind == "type" || kind == "interface";
    // definition: everything; extension variants: 0 directives only, 1 body only, 2 both, 3 implements + directive,
    // 4 implements only (nothing else at all), 5 implements + body
    let (d, b, im) = if !extension { (true, true, true) } else { match variant { 0 => (true, false, false), 1 => (!has_body, true, false), 2 => (true, true, false), 3 => (true, false, true), 4 => (false, false, true), _ => (false, true, true) } };
    Item {
        kind,
        name: name.to_string(),
        extension,
        dirs: if d { vec![format!("d{}{tag}", name.to_lowercase())] } else { vec![] },
        implements: if im && has_impl { vec![format!("I{}{tag}", name)] } else { vec![] },
        body: if b && has_body { vec![body_item(kind, &tag)] } else { vec![] },
        description: true,
    }
}
/// the reference merge of a list of items: None if a name is defined twice within a kind or an extension is an orphan
fn reference_merge(items: &[Item]) -> Option<Vec<Item>> {
    let mut out: Vec<Item> = vec![];
    for i in items.iter().filter(|i| !i.extension) {
        if i.kind != "directive" && out.iter().any(|o| o.kind == i.kind && o.name == i.name) {
            return None;
        }
        out.push(i.clone());
    }
    for e in items.iter().filter(|i| i.extension) {
        let o = out.iter_mut().find(|o| o.kind == e.kind && o.name == e.name)?;
        o.dirs.extend(e.dirs.clone());
        o.implements.extend(e.implements.clone());
        o.body.extend(e.body.clone());
    }
    Some(out)
}

struct Case {
    family: &'static str,
    items: Vec<Item>,
    /// Some(k): items[..k] are file 0 (pushed down by blank lines), items[k..] are file 1 starting at line 0
    split: Option<usize>,
}

fn permutations<T: Clone>(v: &[T]) -> Vec<Vec<T>> {
    if v.len() <= 1 {
        return vec![v.to_vec()];
    }
    let mut out = vec![];
    for i in 0..v.len() {
        let mut rest = v.to_vec();
        let x = rest.remove(i);
        for mut p in permutations(&rest) {
            p.insert(0, x.clone());
            out.push(p);
        }
    }
    out
}

fn cases(thorough: bool) -> Vec<Case> {
    let mut v = vec![];
    let kinds: [&'static str; 7] = ["schema", "scalar", "type", "interface", "union", "enum", "input"];
    // 1. one definition with 0..3 extensions, every choice of components, the definition at every place among them
    for kind in kinds {
        let nvar = if kind == "type" || kind == "interface" { 6 } else if kind == "scalar" { 1 } else { 3 };
        for n in 0..=3usize {
            let combos = (nvar as usize).pow(n as u32);
            for c in 0..combos {
                if !thorough && n == 3 && c % 3 != 0 {
                    continue;
                }
                let exts: Vec<Item> = (0..n).map(|k| make(kind, "A", k + 1, (c / (nvar as usize).pow(k as u32)) % nvar)).collect();
                for place in 0..=n {
                    let mut items = exts.clone();
                    items.insert(place, make(kind, "A", 0, 0));
                    v.push(Case { family: "one definition and its extensions", items, split: None });
                }
            }
        }
    }
    // 2. two names of one kind, their extensions interleaved in every order that keeps each name's extensions in order;
    //    and two kinds sharing one name
    for kind in kinds {
        if kind == "schema" {
            continue;
        }
        let base = vec![make(kind, "A", 0, 0), make(kind, "A", 1, 2), make(kind, "A", 2, 0), make(kind, "B", 0, 0), make(kind, "B", 1, 2)];
        for (n, p) in permutations(&base).into_iter().enumerate() {
            let pos = |name: &str, ext: bool, d0: &str| p.iter().position(|i| i.name == name && i.extension == ext && i.dirs.first().map(|d| d.as_str()) == Some(d0));
            // keep A's two extensions in their order
            let a1 = p.iter().position(|i| i.name == "A" && i.extension && i.dirs.first().map(|d| d.ends_with('1')).unwrap_or(false));
            let a2 = p.iter().position(|i| i.name == "A" && i.extension && i.dirs.first().map(|d| d.ends_with('2')).unwrap_or(false));
            let _ = pos;
            if a1 > a2 {
                continue;
            }
            if !thorough && n % 4 != 0 {
                continue;
            }
            v.push(Case { family: "two names of one kind interleaved", items: p, split: None });
        }
    }
    for (k1, k2) in [("scalar", "type"), ("type", "interface"), ("union", "enum"), ("enum", "input"), ("input", "type"), ("interface", "union")] {
        let base = vec![make(k1, "A", 0, 0), make(k1, "A", 1, 2), make(k2, "A", 0, 0), make(k2, "A", 1, 2)];
        for p in permutations(&base) {
            v.push(Case { family: "two kinds sharing a name", items: p, split: None });
        }
    }
    // 3. all kinds at once, with a directive definition passing through, in a few orders
    let mut all: Vec<Item> = vec![Item { kind: "directive", name: "keep".into(), extension: false, dirs: vec![], implements: vec![], body: vec![], description: false }];
    for kind in kinds {
        all.push(make(kind, "A", 0, 0));
        all.push(make(kind, "A", 1, 2));
        all.push(make(kind, "A", 2, if kind == "type" || kind == "interface" { 3 } else { 0 }));
    }
    v.push(Case { family: "all kinds in one document", items: all.clone(), split: None });
    let mut rev = all.clone();
    rev.reverse();
    // reversing also reverses each name's extensions: the expected merge follows the document order of the reversed text
    v.push(Case { family: "all kinds in one document", items: rev, split: None });
    let mut exts_first: Vec<Item> = all.iter().filter(|i| i.extension).cloned().collect();
    exts_first.extend(all.iter().filter(|i| !i.extension).cloned());
    v.push(Case { family: "all kinds in one document", items: exts_first, split: None });
    // 3b. definitions whose components are all empty, extended two or three times
    for kind in kinds {
        let mut bare = make(kind, "A", 0, 0);
        bare.dirs.clear();
        bare.implements.clear();
        let nvar = if kind == "type" || kind == "interface" { 6 } else if kind == "scalar" { 1 } else { 3 };
        for c in 0..nvar * nvar {
            let e1 = make(kind, "A", 1, c % nvar);
            let e2 = make(kind, "A", 2, c / nvar);
            let e3 = make(kind, "A", 3, 2);
            v.push(Case { family: "bare definition extended several times", items: vec![bare.clone(), e1.clone(), e2.clone()], split: None });
            v.push(Case { family: "bare definition extended several times", items: vec![e1.clone(), bare.clone(), e2.clone(), e3.clone()], split: None });
        }
    }
    // 3c. two files: the second file's items sit on earlier lines than the first file's
    for kind in kinds {
        let d = make(kind, "A", 0, 0);
        let e1 = make(kind, "A", 1, 2);
        let e2 = make(kind, "A", 2, 2);
        let e3 = make(kind, "A", 3, 0);
        v.push(Case { family: "two files", items: vec![d.clone(), e1.clone(), e2.clone()], split: Some(2) });
        v.push(Case { family: "two files", items: vec![d.clone(), e1.clone(), e2.clone(), e3.clone()], split: Some(2) });
        v.push(Case { family: "two files", items: vec![e1.clone(), e2.clone(), d.clone()], split: Some(1) });
        v.push(Case { family: "two files", items: vec![e1.clone(), d.clone(), e2.clone(), e3.clone()], split: Some(3) });
    }
    // 3d. must fail also across files: the same name defined in both files, at the same and at different positions
    for kind in kinds {
        let d = make(kind, "A", 0, 0);
        v.push(Case { family: "must fail: name defined twice within a kind", items: vec![d.clone(), d.clone()], split: Some(1) });
        v.push(Case { family: "must fail: name defined twice within a kind", items: vec![d.clone(), make(kind, "A", 1, 2), d.clone()], split: Some(2) });
    }
    // 4. failures: duplicate definition within a kind, orphan extension, extension of another kind only
    for kind in kinds {
        v.push(Case { family: "must fail: name defined twice within a kind", items: vec![make(kind, "A", 0, 0), make(kind, "A", 1, 2), make(kind, "A", 0, 0)], split: None });
        v.push(Case { family: "must fail: extension without a definition", items: vec![make(kind, "A", 1, 2)], split: None });
        if kind != "schema" {
            v.push(Case { family: "must fail: extension without a definition", items: vec![make(kind, "A", 0, 0), make(kind, "B", 1, 2)], split: None });
            let other = if kind == "scalar" { "type" } else { "scalar" };
            v.push(Case { family: "must fail: extension without a definition", items: vec![make(other, "A", 0, 0), make(kind, "A", 1, 2)], split: None });
        }
    }
    v
}

fn defs_of_resolved(defs: &[TypeSystemDefinition]) -> Vec<String> {
    let mut v: Vec<String> = defs
        .iter()
        .map(|d| match d {
            TypeSystemDefinition::SchemaDefinition(x) => erase_pos(&format!("{x:?}")),
            TypeSystemDefinition::TypeDefinition(x) => erase_pos(&format!("{x:?}")),
            TypeSystemDefinition::DirectiveDefinition(x) => erase_pos(&format!("{x:?}")),
        })
        .collect();
    v.sort();
    v
}
fn defs_of_parsed(defs: &[TypeSystemDefinitionOrExtension]) -> Vec<String> {
    let mut v: Vec<String> = defs
        .iter()
        .map(|d| match d {
            TypeSystemDefinitionOrExtension::SchemaDefinition(x) => erase_pos(&format!("{x:?}")),
            TypeSystemDefinitionOrExtension::TypeDefinition(x) => erase_pos(&format!("{x:?}")),
            TypeSystemDefinitionOrExtension::DirectiveDefinition(x) => erase_pos(&format!("{x:?}")),
            TypeSystemDefinitionOrExtension::SchemaExtension(x) => format!("EXTENSION {}", erase_pos(&format!("{x:?}"))),
            TypeSystemDefinitionOrExtension::TypeExtension(x) => format!("EXTENSION {}", erase_pos(&format!("{x:?}"))),
        })
        .collect();
    v.sort();
    v
}

fn main() {
    let args: Vec<String> = std::env::args().collect();
    let thorough = args.get(1).map(|a| a == "thorough").unwrap_or(false);
    let only: Option<usize> = args.iter().position(|a| a == "--one").and_then(|i| args.get(i + 1)).and_then(|x| x.parse().ok());
    let cases = cases(thorough);
    let mut failures = vec![];
    let mut per_family: BTreeMap<String, usize> = BTreeMap::new();
    let mut evaluations = 0;
    std::panic::set_hook(Box::new(|_| {}));
    for (i, c) in cases.iter().enumerate() {
        if let Some(o) = only {
            if o != i {
                continue;
            }
        }
        evaluations += 1;
        *per_family.entry(c.family.to_string()).or_default() += 1;
        let files: Option<(String, String)> = c.split.map(|k| {
            (format!("{}{}", if k > 1 { "\n\n\n\n\n" } else { "" }, c.items[..k].iter().map(render).collect::<Vec<_>>().join("\n")), c.items[k..].iter().map(render).collect::<Vec<_>>().join("\n"))
        });
        let source = match &files {
            None => c.items.iter().map(render).collect::<Vec<_>>().join("\n"),
            Some((f0, f1)) => format!("--- file 0 ---\n{f0}\n--- file 1 ---\n{f1}"),
        };
        let expected = reference_merge(&c.items);
        let r = std::panic::catch_unwind(|| {
            let doc = match &files {
                None => parse_type_system_document(&source).map_err(|e| format!("generator: the source does not parse: {e:?}"))?,
                Some((f0, f1)) => {
                    // as crates/cli does: every file is parsed with its own file index, then the documents are concatenated
                    nitrogql_ast::set_current_file_of_pos(0);
                    let d0 = parse_type_system_document(f0).map_err(|e| format!("generator: the source does not parse: {e:?}"))?;
                    nitrogql_ast::set_current_file_of_pos(1);
                    let d1 = parse_type_system_document(f1).map_err(|e| format!("generator: the source does not parse: {e:?}"))?;
                    nitrogql_ast::set_current_file_of_pos(0);
                    nitrogql_ast::TypeSystemOrExtensionDocument::merge(vec![d0, d1])
                }
            };
            Ok::<_, String>(resolve_schema_extensions(doc).map(|d| defs_of_resolved(&d.definitions)).map_err(|e| format!("{}", e.message)))
        });
        let input = format!("[{}]\n{source}", c.family);
        let kind_of = c.items.iter().find(|i| i.kind != "directive").map(|i| i.kind).unwrap_or("");
        match r {
            Err(_) => failures.push((i, "resolve_schema_extensions panics".to_string(), input, String::new(), String::new())),
            Ok(Err(e)) => failures.push((i, "generator: the source does not parse".to_string(), input, e, String::new())),
            Ok(Ok(got)) => match (expected, got) {
                (None, Err(_)) => {}
                (None, Ok(g)) => failures.push((i, format!("{} - but resolution succeeds", c.family), input, "the reference merge fails".into(), g.join("\n").chars().take(600).collect())),
                (Some(_), Err(e)) => failures.push((i, "resolution fails although every extension has a definition and no name is defined twice within a kind".into(), input, "the reference merge succeeds".into(), e)),
                (Some(exp), Ok(g)) => {
                    let exp_src = exp.iter().map(render).collect::<Vec<_>>().join("\n");
                    let exp_defs = match parse_type_system_document(&exp_src) {
                        Ok(d) => defs_of_parsed(&d.definitions),
                        Err(e) => {
                            failures.push((i, "generator: the expected text does not parse".into(), input, format!("{e:?}"), exp_src));
                            continue;
                        }
                    };
                    if exp_defs != g {
                        // which definition differs, and in which component
                        let site = exp_defs.iter().zip(g.iter()).find(|(a, b)| a != b).map(|(a, b)| {
                            let n = a.bytes().zip(b.bytes()).take_while(|(x, y)| x == y).count();
                            let head = &a[..n.min(a.len())];
                            let field = head.rfind(": ").map(|k| { let h = &head[..k]; let st = h.rfind(|c: char| !(c.is_alphanumeric() || c == '_')).map(|q| q + 1).unwrap_or(0); h[st..].to_string() }).unwrap_or_default();
                            field
                        }).unwrap_or_else(|| "number of definitions".into());
                        failures.push((i, format!("merged {kind_of} differs from the reference merge at {site}"), input, format!("expected (as text): {exp_src}"), g.join("\n").chars().take(900).collect()));
                    }
                }
            },
        }
    }
    let samples: Vec<String> = cases.iter().enumerate().filter(|(i, _)| i % (cases.len() / 8).max(1) == 2).take(8).map(|(i, c)| format!("[#{i} {}] {}", c.family, c.items.iter().map(render).collect::<Vec<_>>().join(" ; "))).collect();
    cli::report(evaluations, per_family, samples, failures);
}
