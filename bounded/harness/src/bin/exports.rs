//! BOUNDED stand-in (not a proof) for the configuration-to-both-printers part of property C14 that no contract reaches:
//! crates/printer/src/operation_type_printer/mod.rs print_types_for_operation_document (how the options reach the
//! visitor), OperationBasePrinterOptions::from_config / OperationTypePrinterOptions::from_config /
//! OperationJSPrinterOptions::from_config, crates/config-file parse_config for the name / export keys.  (The visitors
//! and the shared traversal ARE proved: units jsvisitor, tsvisitor, printdoc.)
//! For every configuration of a stated product of naming / export options and every operation file of a stated family,
//! the real declaration printer and the real JavaScript printer are run with options derived from the same configuration
//! text; every value export declared by the declaration file must be exported under the same name by the JavaScript
//! module, the default exports must agree, and the i-th constant of both files must carry the i-th definition of the file.
//! usage: exports <quick|thorough> [--one <index>]
use std::collections::BTreeMap;

use nitrogql_config_file::parse_config;
use nitrogql_parser::{parse_operation_document, parse_type_system_document};
use nitrogql_printer::{OperationJSPrinterOptions, OperationTypePrinterOptions, print_js_for_operation_document, print_types_for_operation_document};
use nitrogql_semantics::{ast_to_type_system, resolve_operation_extensions, resolve_schema_extensions};
use sourcemap_writer::JustWriter;
use vx_bounded::cli;

const SCHEMA: &str = "scalar Int\nscalar String\nscalar ID\nscalar Boolean\nscalar Float\ntype Query { user(id: ID): User hello: String }\ntype Mutation { rename(id: ID, to: String): User }\ntype Subscription { ticks: Int }\ntype User { id: ID name: String }\n";

const DOCS: [(&str, &str); 11] = [
    ("one named query", "query GetUser($id: ID) { user(id: $id) { id } }"),
    ("lower-case names", "query getUser { hello }\nfragment userParts on User { id }"),
    ("anonymous query", "query { hello }"),
    ("query shorthand", "{ hello }"),
    ("query, mutation, subscription", "query A { hello }\nmutation B { rename(id: 1, to: \"x\") { id } }\nsubscription C { ticks }"),
    ("query and fragments", "query WithFrag { user { ...F1 ...f2 } }\nfragment F1 on User { id }\nfragment f2 on User { name }"),
    ("fragments only", "fragment OnlyA on User { id }\nfragment OnlyB on User { name ...OnlyA }"),
    ("anonymous mutation and a fragment", "mutation { rename(id: 1, to: \"y\") { ...Z } }\nfragment Z on User { id }"),
    ("an operation and a fragment of the same name, operation first", "query User { user { ...User } }\nfragment User on User { id }"),
    ("an operation and a fragment of the same name, fragment first", "fragment User on User { id }\nquery User { user { ...User } }"),
    ("a query and a mutation of one name, and a fragment named like both", "fragment Same on User { id }\nquery Same { hello }\nmutation Same { rename(id: 1, to: \"z\") { ...Same } }"),
];

struct Cfg {
    label: String,
    yaml: String,
}
fn configs(thorough: bool) -> Vec<Cfg> {
    let mut v = vec![];
    let opt = |k: &str, val: Option<&str>| val.map(|x| format!("        {k}: {x}\n")).unwrap_or_default();
    for default_export in [None, Some("true"), Some("false")] {
        for capitalize in [None, Some("true"), Some("false")] {
            for qsuffix in [None, Some("\"Q\""), Some("\"\"")] {
                for fsuffix in [None, Some("\"Frag\"")] {
                    for msuffix in [None, Some("\"Mut\"")] {
                        for ssuffix in [None, Some("\"\"")] {
                            for mode in ["with-loader-ts-5.0", "with-loader-ts-4.0", "standalone-ts-4.0"] {
                                for extypes in [None, Some("true")] {
                                    let n = v.len();
                                    let label = format!("defaultExportForOperation={default_export:?} capitalizeOperationNames={capitalize:?} queryVariableSuffix={qsuffix:?} fragmentVariableSuffix={fsuffix:?} mutationVariableSuffix={msuffix:?} subscriptionVariableSuffix={ssuffix:?} mode={mode} exportTypes={extypes:?}");
                                    let name = format!("{}{}{}{}{}", opt("capitalizeOperationNames", capitalize), opt("queryVariableSuffix", qsuffix), opt("fragmentVariableSuffix", fsuffix), opt("mutationVariableSuffix", msuffix), opt("subscriptionVariableSuffix", ssuffix));
                                    let export = format!("{}{}{}", opt("defaultExportForOperation", default_export), opt("operationResultType", extypes), opt("variablesType", extypes));
                                    let yaml = format!(
                                        "schema: ./s.graphql\ndocuments: ./o.graphql\nextensions:\n  nitrogql:\n    generate:\n      mode: {mode}\n      schemaOutput: ./schema.d.ts\n{}{}",
                                        if name.is_empty() { String::new() } else { format!("      name:\n{name}") },
                                        if export.is_empty() { String::new() } else { format!("      export:\n{export}") }
                                    );
                                    if thorough || n % 5 == 0 {
                                        v.push(Cfg { label, yaml });
                                    } else {
                                        v.push(Cfg { label: String::new(), yaml: String::new() });
                                    }
                                }
                            }
                        }
                    }
                }
            }
        }
    }
    v.retain(|c| !c.yaml.is_empty());
    v
}

/// (constants in order of declaration with whether they are exported by name, default export's local name)
fn exports_of(text: &str, ts: bool) -> (Vec<(String, bool)>, Option<String>) {
    let mut consts = vec![];
    let mut default = None;
    for line in text.lines() {
        let l = line.trim_start();
        let (exported, rest) = match l.strip_prefix("export ") {
            Some(r) => (true, r),
            None => (false, l),
        };
        let rest = if ts { rest.strip_prefix("declare ").unwrap_or(rest) } else { rest };
        if let Some(r) = rest.strip_prefix("const ") {
            let id: String = r.chars().take_while(|c| c.is_alphanumeric() || *c == '_' || *c == '$').collect();
            // an anonymous operation with an empty variable suffix gets an empty name on both sides (not valid
            // TypeScript / JavaScript, but outside C14, which relates the two files): kept, so that positions line up
            consts.push((id, exported));
        } else if let Some(r) = l.strip_prefix("export {") {
            // export { X as default };
            let inner = r.trim().trim_end_matches(';').trim_end_matches('}').trim();
            let mut w = inner.split_whitespace();
            if let (Some(x), Some("as"), Some("default")) = (w.next(), w.next(), w.next()) {
                default = Some(x.to_string());
            }
        } else if let Some(r) = l.strip_prefix("export default ") {
            default = Some(r.trim_end_matches(';').trim().to_string());
        }
    }
    (consts, default)
}
/// name (or kind for an anonymous operation) of the first definition of the JSON document assigned to `const <name> =`
fn js_first_definition(js: &str, name: &str) -> Option<String> {
    let key = format!("const {name} = ");
    let i = js.find(&key)?;
    let rest = &js[i + key.len()..];
    let end = rest.find(";\n").unwrap_or(rest.len());
    let j: serde_json::Value = serde_json::from_str(&rest[..end]).ok()?;
    let d = j.get("definitions")?.get(0)?;
    let kind = d.get("kind")?.as_str()?;
    let n = d.get("name").and_then(|n| n.get("value")).and_then(|v| v.as_str());
    Some(match (kind, n) {
        (_, Some(n)) => n.to_string(),
        ("OperationDefinition", None) => format!("(anonymous {})", d.get("operation").and_then(|o| o.as_str()).unwrap_or("?")),
        _ => "?".to_string(),
    })
}

fn main() {
    let args: Vec<String> = std::env::args().collect();
    let thorough = args.get(1).map(|a| a == "thorough").unwrap_or(false);
    let only: Option<usize> = args.iter().position(|a| a == "--one").and_then(|i| args.get(i + 1)).and_then(|x| x.parse().ok());
    let cfgs = configs(thorough);
    let mut failures = vec![];
    let mut per_family: BTreeMap<String, usize> = BTreeMap::new();
    let mut evaluations = 0usize;
    let mut index = 0usize;
    let mut samples = vec![];
    std::panic::set_hook(Box::new(|_| {}));
    for c in &cfgs {
        for (dl, text) in DOCS {
            let i = index;
            index += 1;
            if let Some(o) = only {
                if o != i {
                    continue;
                }
            }
            evaluations += 1;
            *per_family.entry(dl.to_string()).or_default() += 1;
            if samples.len() < 6 && i % 211 == 3 {
                samples.push(format!("[#{i}] {dl}; {}", c.label));
            }
            let input = format!("[{dl}]\n{text}\n--- configuration\n{}", c.yaml);
            let r = std::panic::catch_unwind(|| -> Result<(String, String, Vec<String>), String> {
                let config = parse_config(&c.yaml).ok_or("the configuration does not parse")?;
                let doc = parse_operation_document(text).map_err(|e| format!("{e:?}"))?;
                let (doc, _) = resolve_operation_extensions(doc).map_err(|e| format!("{e:?}"))?;
                let sdoc = resolve_schema_extensions(parse_type_system_document(SCHEMA).map_err(|e| format!("{e:?}"))?).map_err(|e| format!("{}", e.message))?;
                let schema = ast_to_type_system(&sdoc);
                let mut ts = String::new();
                {
                    let mut w = JustWriter::new(&mut ts);
                    let mut o = OperationTypePrinterOptions::from_config(&config);
                    o.schema_source = "./schema".into();
                    print_types_for_operation_document(o, &schema, &doc, &mut w);
                }
                let mut js = String::new();
                {
                    let mut w = JustWriter::new(&mut js);
                    print_js_for_operation_document(OperationJSPrinterOptions::from_config(&config), &doc, &mut w);
                }
                let defs: Vec<String> = doc
                    .definitions
                    .iter()
                    .map(|d| match d {
                        nitrogql_ast::operation::ExecutableDefinition::OperationDefinition(o) => o.name.map(|n| n.name.to_string()).unwrap_or_else(|| format!("(anonymous {})", o.operation_type.as_str())),
                        nitrogql_ast::operation::ExecutableDefinition::FragmentDefinition(f) => f.name.name.to_string(),
                    })
                    .collect();
                Ok((ts, js, defs))
            });
            let (ts, js, defs) = match r {
                Err(_) => {
                    failures.push((i, "a printer panics".to_string(), input, String::new(), String::new()));
                    continue;
                }
                Ok(Err(e)) => {
                    failures.push((i, "generator: input rejected".to_string(), input, e, String::new()));
                    continue;
                }
                Ok(Ok(x)) => x,
            };
            let (tconsts, tdefault) = exports_of(&ts, true);
            let (jconsts, jdefault) = exports_of(&js, false);
            let got = format!("--- declaration file\n{}\n--- JavaScript module (constants only)\n{}", ts.lines().filter(|l| l.contains("const ") || l.starts_with("export {")).collect::<Vec<_>>().join("\n"), js.lines().map(|l| l.chars().take(90).collect::<String>()).filter(|l| l.contains("const ") || l.starts_with("export {")).collect::<Vec<_>>().join("\n"));
            // every value export of the declaration file is exported under the same name by the module
            let jnamed: Vec<&String> = jconsts.iter().filter(|(_, e)| *e).map(|(n, _)| n).collect();
            let missing: Vec<&String> = tconsts.iter().filter(|(_, e)| *e).map(|(n, _)| n).filter(|n| !jnamed.contains(n)).collect();
            if !missing.is_empty() {
                let what = if missing.iter().any(|m| jconsts.iter().any(|(n, _)| n == *m)) { "the module declares the constant but does not export it" } else { "the module has no constant of that name" };
                failures.push((i, format!("a named value export of the declaration file is not exported by the JavaScript module ({what})"), input, format!("missing: {missing:?}"), got));
                continue;
            }
            if tdefault.is_some() != jdefault.is_some() || tdefault != jdefault {
                failures.push((i, "the default exports of the declaration file and of the JavaScript module differ".to_string(), input, format!("declaration file: {tdefault:?}, module: {jdefault:?}"), got));
                continue;
            }
            // which definition a declared constant stands for: the declaration file lists its constants in the order of
            // the definitions (if it does not, this reader cannot tell - undecided, not a failure); the module may list
            // its constants in any order: the constant of the same NAME must carry that definition
            if tconsts.len() != defs.len() {
                failures.push((i, "harness: the declaration file does not declare one constant per definition".to_string(), input, format!("{} definitions, {} constants declared", defs.len(), tconsts.len()), got));
                continue;
            }
            let mut bad = None;
            for k in 0..defs.len() {
                let name = &tconsts[k].0;
                if !jconsts.iter().any(|(n, _)| n == name) {
                    bad = Some(format!("constant {name} (definition {}) is declared but the module has no constant of that name", defs[k]));
                    break;
                }
                match js_first_definition(&js, name) {
                    Some(n) if n == defs[k] => {}
                    other => {
                        bad = Some(format!("constant {name} should carry definition {} but its document starts with {other:?}", defs[k]));
                        break;
                    }
                }
            }
            if let Some(b) = bad {
                failures.push((i, "a declared constant is missing from the module or carries the document of another definition".to_string(), input, b, got));
                continue;
            }
            *per_family.entry("agreed".into()).or_default() += 1;
        }
    }
    per_family.insert("configurations".into(), cfgs.len());
    cli::report(evaluations, per_family, samples, failures);
}
