//! BOUNDED stand-in (not a proof) for properties C03 / C04 on two operation-checker functions that are not under
//! contract: check_fragment_spread_core (fragment spread applicability, spec 5.5.2.3) and
//! selection_set_has_more_than_one_fields (subscription single root field, spec 5.2.3.1).  The real `nitrogql check` is
//! run on every document of a stated finite family and its verdict is compared with an independent executable reading
//! of the two rules.
//! usage: opverdict <quick|thorough> [--one <index>]     env: VX_CLI
use std::collections::{BTreeMap, BTreeSet};

use vx_bounded::cli;

const SCHEMA: &str = "type Query { k: K l: L p: P j: J m: M i2: I2 u: U v: V w: W a1: A1 b1: B1 c1: C1 x: Int arg(req: Int!, opt: Int, e: E, i: I, l: [Int!]): Int arg2(opt: Int, req: Int!, last: Int): Int arg3(l: [ID!], m: [[Int!]], n: [String!]! = [], o: [I!]): Int }\n\
interface A1 { a: Int }\ninterface B1 { a: Int }\ninterface C1 implements A1 & B1 { a: Int }\ntype OA implements A1 { a: Int }\ntype OB implements B1 { a: Int }\n\
type Subscription { a: Int b: Int c(n: Int): K }\n\
type Mutation { mu: Int }\nenum E { A B }\ninput I { r: Int! o: Int }\ndirective @once on FIELD\ndirective @many repeatable on FIELD | QUERY\ndirective @onq on QUERY\ndirective @tag2(label: String, id: ID!, l: [ID!]) on FIELD\ndirective @fd(x: Int) repeatable on FRAGMENT_DEFINITION\ndirective @fd1 on FRAGMENT_DEFINITION\n\
interface J { id: ID }\ninterface M implements J { id: ID mm: Int }\ninterface I2 { z: Int }\n\
type K implements J { id: ID kk: Int }\ntype L { ll: Int }\ntype P implements M & J { id: ID mm: Int }\n\
union U = K | L\nunion V = L\nunion W = P\n";

/// concrete object types a value of the (composite) type can have
fn possible(t: &str) -> BTreeSet<&'static str> {
    match t {
        "K" => ["K"].into(),
        "L" => ["L"].into(),
        "P" => ["P"].into(),
        "J" => ["K", "P"].into(),
        "M" => ["P"].into(),
        "I2" => [].into(),
        "U" => ["K", "L"].into(),
        "V" => ["L"].into(),
        "W" => ["P"].into(),
        // A1 and B1 have no object type in common, only the interface C1, which no object implements
        "A1" => ["OA"].into(),
        "B1" => ["OB"].into(),
        "C1" => [].into(),
        _ => panic!("unknown type {t}"),
    }
}
/// spec 5.5.2.3 with the reference implementation's reading that a type always overlaps itself (doTypesOverlap), which
/// matters only for an interface without implementations
fn overlap(a: &str, b: &str) -> bool {
    a == b || !possible(a).is_disjoint(&possible(b))
}
const TYPES: [(&str, &str); 12] = [("k", "K"), ("l", "L"), ("p", "P"), ("j", "J"), ("m", "M"), ("i2", "I2"), ("u", "U"), ("v", "V"), ("w", "W"), ("a1", "A1"), ("b1", "B1"), ("c1", "C1")];

struct Case {
    family: &'static str,
    label: String,
    doc: String,
    expect_valid: bool,
    why: String,
}

fn spread_cases() -> Vec<Case> {
    let mut v = vec![];
    for (field, parent) in TYPES {
        for (_, cond) in TYPES {
            let applicable = overlap(parent, cond);
            let why = if applicable { format!("{parent} and {cond} share a possible type") } else { format!("no object type is both a possible {parent} and a possible {cond}") };
            v.push(Case { family: "inline fragment applicability", label: format!("... on {cond} inside {parent}"), doc: format!("query {{ {field} {{ ... on {cond} {{ __typename }} }} }}"), expect_valid: applicable, why: why.clone() });
            v.push(Case { family: "fragment spread applicability", label: format!("...F (on {cond}) inside {parent}"), doc: format!("query {{ {field} {{ ...F }} }}\nfragment F on {cond} {{ __typename }}"), expect_valid: applicable, why: why.clone() });
            // the body of an applicable fragment is validated against the condition type
            if applicable {
                let own_field = match cond { "K" => "kk", "L" => "ll", "P" | "M" => "mm", "J" => "id", "I2" => "z", "A1" | "B1" | "C1" => "a", _ => "__typename" };
                v.push(Case { family: "fragment body validation", label: format!("... on {cond} {{ {own_field} }} inside {parent}"), doc: format!("query {{ {field} {{ ... on {cond} {{ {own_field} }} }} }}"), expect_valid: true, why: format!("{own_field} is a field of {cond}") });
                v.push(Case { family: "fragment body validation", label: format!("... on {cond} {{ bogus }} inside {parent}"), doc: format!("query {{ {field} {{ ... on {cond} {{ bogus }} }} }}"), expect_valid: false, why: format!("bogus is not a field of {cond}") });
                v.push(Case { family: "fragment body validation", label: format!("...F (on {cond}) {{ bogus }} inside {parent}"), doc: format!("query {{ {field} {{ ...F }} }}\nfragment F on {cond} {{ bogus }}"), expect_valid: false, why: format!("bogus is not a field of {cond}") });
            }
            // through an intermediate inline fragment without type condition, and one level deeper
            v.push(Case { family: "fragment spread applicability", label: format!("... {{ ...F (on {cond}) }} inside {parent}"), doc: format!("query {{ {field} {{ ... {{ ...F }} }} }}\nfragment F on {cond} {{ __typename }}"), expect_valid: applicable, why: why.clone() });
            for (_, mid) in TYPES {
                let a1 = overlap(parent, mid);
                let a2 = overlap(mid, cond);
                if (parent.len() + mid.len() * 3 + cond.len() + field.len()) % 2 == 0 && parent != mid {
                    v.push(Case {
                        family: "nested fragment applicability",
                        label: format!("... on {mid} {{ ...F (on {cond}) }} inside {parent}"),
                        doc: format!("query {{ {field} {{ ... on {mid} {{ ...F }} }} }}\nfragment F on {cond} {{ __typename }}"),
                        expect_valid: a1 && a2,
                        why: if a1 && a2 { "both spreads are applicable".into() } else if !a1 { format!("{mid} can never apply inside {parent}") } else { format!("{cond} can never apply inside {mid}") },
                    });
                }
            }
        }
    }
    // the same named fragment spread twice in one operation: every spread site is checked against its own scope
    for (f1, p1) in TYPES {
        for (f2, p2) in TYPES {
            if f1 == f2 {
                continue;
            }
            for (_, cond) in [("k", "K"), ("j", "J"), ("u", "U")] {
                let ok = overlap(p1, cond) && overlap(p2, cond);
                v.push(Case {
                    family: "fragment spread applicability",
                    label: format!("...F (on {cond}) inside {p1} and again inside {p2}"),
                    doc: format!("query {{ {f1} {{ ...F }} {f2} {{ ...F }} }}\nfragment F on {cond} {{ __typename }}"),
                    expect_valid: ok,
                    why: if ok { "both spreads are applicable".into() } else { format!("{cond} can never apply inside {}", if overlap(p1, cond) { p2 } else { p1 }) },
                });
            }
        }
    }
    v
}

/// response keys a subscription's root selection set collects (after following fragments), per the specification
fn subscription_cases() -> Vec<Case> {
    let mut v = vec![];
    let mut push = |label: &str, doc: &str, keys: usize| {
        v.push(Case {
            family: "subscription single root field",
            label: label.into(),
            doc: doc.into(),
            expect_valid: keys == 1,
            why: format!("the root selection set collects {keys} response key(s)"),
        })
    };
    push("one field", "subscription { a }", 1);
    push("two fields", "subscription { a b }", 2);
    push("two aliases of one field", "subscription { a1: a a2: a }", 2);
    push("one field with arguments and a sub-selection", "subscription { c(n: 1) { id } }", 1);
    push("the same field twice (one response key)", "subscription { a a }", 1);
    push("the same field directly and through a fragment (one response key)", "subscription { a ...F }\nfragment F on Subscription { a }", 1);
    push("three fields", "subscription { a b c { id } }", 3);
    push("one field in an inline fragment", "subscription { ... { a } }", 1);
    push("one field in a typed inline fragment", "subscription { ... on Subscription { a } }", 1);
    push("field plus inline fragment field", "subscription { a ... { b } }", 2);
    push("two inline fragments, one field each", "subscription { ... { a } ... { b } }", 2);
    push("one field through a named fragment", "subscription { ...F }\nfragment F on Subscription { a }", 1);
    push("two fields through a named fragment", "subscription { ...F }\nfragment F on Subscription { a b }", 2);
    push("field plus named fragment field", "subscription { a ...F }\nfragment F on Subscription { b }", 2);
    push("two named fragments, one field each", "subscription { ...F ...G }\nfragment F on Subscription { a }\nfragment G on Subscription { b }", 2);
    push("nested named fragments, one field", "subscription { ...F }\nfragment F on Subscription { ...G }\nfragment G on Subscription { ... { a } }", 1);
    push("nested named fragments, two fields", "subscription { ...F }\nfragment F on Subscription { a ...G }\nfragment G on Subscription { b }", 2);
    push("named fragment and inline fragment", "subscription { ...F ... { b } }\nfragment F on Subscription { a }", 2);
    push("named subscription with variables, one field", "subscription S($n: Int) { c(n: $n) { id kk } }", 1);
    push("named subscription, two fields", "subscription S { a b }", 2);
    // queries and mutations are not restricted
    v.push(Case { family: "subscription single root field", label: "query with two root fields".into(), doc: "query { x k { id } }".into(), expect_valid: true, why: "the rule applies to subscriptions only".into() });
    v.push(Case { family: "subscription single root field", label: "subscription next to a query with two root fields".into(), doc: "query Q { x k { id } }\nsubscription S { a }".into(), expect_valid: true, why: "the subscription collects 1 response key".into() });
    v.push(Case { family: "subscription single root field", label: "valid subscription next to an invalid one".into(), doc: "subscription S1 { a }\nsubscription S2 { a b }".into(), expect_valid: false, why: "S2 collects 2 response keys".into() });
    v
}

/// documents whose fragments come from other files through `#import`: a fragment definition that is reachable through
/// several import routes is still ONE definition (5.5.1.1 fragment name uniqueness is about definitions, not routes)
fn import_cases() -> Vec<Case> {
    let mut v = vec![];
    let fk = "fragment FK on K { id }\n";
    let fk2 = "#import FJ from \"./fj.graphql\"\nfragment FK on K { ...FJ }\n";
    let fl = "#import FJ from \"./fj.graphql\"\nfragment FL on J { ...FJ }\n";
    let fj = "fragment FJ on J { id }\n";
    let mut add = |label: &str, doc: String, expect_valid: bool, why: &str| v.push(Case { family: "imported fragments", label: label.to_string(), doc, expect_valid, why: why.to_string() });
    add("one import", format!("#import FK from \"./fk.graphql\"\nquery {{ k {{ ...FK }} }}\n--- ops/fk.graphql\n{fk}"), true, "the imported fragment is defined once and applicable");
    add("one-route transitive import", format!("#import FK from \"./fk.graphql\"\nquery {{ k {{ ...FK }} }}\n--- ops/fk.graphql\n{fk2}--- ops/fj.graphql\n{fj}"), true, "each fragment is defined once");
    add("direct import and the same fragment again through another import", format!("#import FJ from \"./fj.graphql\"\n#import FK from \"./fk.graphql\"\nquery {{ k {{ ...FK ...FJ }} }}\n--- ops/fk.graphql\n{fk2}--- ops/fj.graphql\n{fj}"), true, "FJ is one definition reached through two routes");
    add("the same fragment through another import first, then directly", format!("#import FK from \"./fk.graphql\"\n#import FJ from \"./fj.graphql\"\nquery {{ k {{ ...FK ...FJ }} }}\n--- ops/fk.graphql\n{fk2}--- ops/fj.graphql\n{fj}"), true, "FJ is one definition reached through two routes");
    add("diamond", format!("#import FK from \"./fk.graphql\"\n#import FL from \"./fl.graphql\"\nquery {{ k {{ ...FK ...FL }} }}\n--- ops/fk.graphql\n{fk2}--- ops/fl.graphql\n{fl}--- ops/fj.graphql\n{fj}"), true, "FJ is one definition reached through two routes");
    add("diamond across directories", format!("#import FK from \"./a/fk.graphql\"\n#import FL from \"./b/fl.graphql\"\nquery {{ k {{ ...FK ...FL }} }}\n--- ops/a/fk.graphql\n{}--- ops/b/fl.graphql\n{}--- ops/fj.graphql\n{fj}", fk2.replace("./fj", "../fj"), fl.replace("./fj", "../fj")), true, "FJ is one definition reached through two routes");
    add("three routes", format!("#import FK from \"./fk.graphql\"\n#import FL from \"./fl.graphql\"\n#import FJ from \"./fj.graphql\"\nquery {{ k {{ ...FK ...FL ...FJ }} }}\n--- ops/fk.graphql\n{fk2}--- ops/fl.graphql\n{fl}--- ops/fj.graphql\n{fj}"), true, "FJ is one definition reached through three routes");
    add("two import statements for one file", format!("#import FK from \"./f.graphql\"\n#import FL from \"./f.graphql\"\nquery {{ k {{ ...FK ...FL }} }}\n--- ops/f.graphql\nfragment FK on K {{ id }}\nfragment FL on J {{ id }}\n"), true, "each fragment is defined once");
    add("wildcard import of a file that imports", format!("#import * from \"./fk.graphql\"\nquery {{ k {{ ...FK }} }}\n--- ops/fk.graphql\n{fk2}--- ops/fj.graphql\n{fj}"), true, "each fragment is defined once");
    add("mutually importing files", "#import A from \"./a.graphql\"\nquery { k { ...A } }\n--- ops/a.graphql\n#import B from \"./b.graphql\"\nfragment A on K { id ... on K { ...B } }\n--- ops/b.graphql\n#import A from \"./a.graphql\"\nfragment B on K { id }\n".to_string(), true, "the files import each other but the fragments do not form a cycle");
    add("two fragments of one file requested through different routes", "#import A from \"./a.graphql\"\nquery { k { ...A } }\n--- ops/a.graphql\n#import B from \"./b.graphql\"\nfragment A on K { id ...B }\nfragment A2 on K { kk }\n--- ops/b.graphql\n#import A2 from \"./a.graphql\"\nfragment B on K { id ...A2 }\n".to_string(), true, "every fragment is defined once and every spread fragment is imported by the file that spreads it");
    add("imported fragment with the name of a local one", format!("#import FK from \"./fk.graphql\"\nquery {{ k {{ ...FK }} }}\nfragment FK on K {{ id }}\n--- ops/fk.graphql\n{fk}"), false, "two definitions named FK");
    add("imported fragment not applicable", format!("#import FK from \"./fk.graphql\"\nquery {{ l {{ ...FK }} }}\n--- ops/fk.graphql\n{fk}"), false, "K can never apply inside L");
    add("import of a fragment the file does not define", format!("#import Nope from \"./fk.graphql\"\nquery {{ k {{ ...Nope }} }}\n--- ops/fk.graphql\n{fk}"), false, "Nope is not defined");
    v
}

/// one accepted and one rejected document (at least) for every validation rule the property lists; a second line behind
/// the Verus units that prove these rules (opdoc, vardefs, dirs, args, walk_*), for rewrites that leave a unit undecided
fn rule_cases() -> Vec<Case> {
    let mut v = vec![];
    let mut add = |rule: &str, doc: &str, expect_valid: bool| {
        v.push(Case { family: "validation rules", label: format!("{rule}: {}", doc.replace('\n', " ")), doc: doc.to_string(), expect_valid, why: if expect_valid { format!("the document satisfies the rule `{rule}` and every other rule") } else { format!("the document breaks the rule `{rule}`") } })
    };
    // operation names
    add("unique operation names", "query A { x } query A { x }", false);
    add("unique operation names", "query A { x } mutation A { mu }", false);
    add("unique operation names", "query A { x } query B { x } mutation C { mu }", true);
    add("lone anonymous operation", "{ x } query A { x }", false);
    add("lone anonymous operation", "query A { x } { x }", false);
    add("lone anonymous operation", "{ x } { x }", false);
    add("lone anonymous operation", "{ x }", true);
    add("lone anonymous operation", "{ x }\nfragment F on K { id }", true);
    // fields
    add("selected fields exist", "{ nope }", false);
    add("selected fields exist", "{ k { nope } }", false);
    add("selected fields exist", "{ x k { id kk } }", true);
    add("selected fields exist", "{ __typename k { __typename } u { __typename } j { __typename id } }", true);
    add("selected fields exist", "{ u { id } }", false);
    add("selected fields exist", "{ u { ... on K { id } ... on L { ll } } }", true);
    add("selected fields exist", "{ u { ... on K { ll } } }", false);
    add("selected fields exist", "{ k { ...F } }\nfragment F on K { nope }", false);
    add("selected fields exist", "mutation { x }", false);
    add("selected fields exist", "mutation { mu }", true);
    add("leaf fields have no sub-selection", "{ k { __typename { length } } }", false);
    add("leaf fields have no sub-selection", "{ __typename { x } }", false);
    add("arguments are defined", "{ __typename(format: \"short\") }", false);
    add("arguments are defined", "query Q($a: Int) { u { __typename(x: $a) } }", false);
    add("variables are defined where used", "{ k { __typename(x: $nope) } }", false);
    add("selected fields exist", "{ __typename @once t: __typename @many @many k { __typename @skip(if: true) } }", true);
    add("leaf fields have no sub-selection", "{ x { y } }", false);
    add("leaf fields have no sub-selection", "{ k { id { z } } }", false);
    add("composite fields have a sub-selection", "{ k }", false);
    add("composite fields have a sub-selection", "{ u }", false);
    add("composite fields have a sub-selection", "{ k { id } j { id } }", true);
    // arguments
    add("arguments are defined", "{ arg(req: 1, nope: 2) }", false);
    add("arguments are defined", "{ x(nope: 1) }", false);
    add("arguments are defined", "{ arg(req: 1, opt: 2, e: A, i: {r: 1}, l: [1, 2]) }", true);
    add("required arguments are supplied", "{ arg }", false);
    add("required arguments are supplied", "{ arg(opt: 1) }", false);
    add("required arguments are supplied", "{ arg(req: null) }", false);
    add("required arguments are supplied", "{ arg(req: 1) }", true);
    add("required arguments are supplied", "{ arg2(opt: 1) }", false);
    add("required arguments are supplied", "{ arg2(last: 1) }", false);
    add("required arguments are supplied", "{ arg2(opt: 1, last: 2) }", false);
    add("required arguments are supplied", "{ arg2(req: 1) arg2b: arg2(opt: null, req: 2, last: 3) }", true);
    add("required arguments are supplied", "{ x @tag2(label: \"x\") }", false);
    add("required arguments are supplied", "{ x @tag2(id: 1) @skip(if: false) }", true);
    add("nullable arguments may be omitted", "{ arg3 }", true);
    add("nullable arguments may be omitted", "{ arg3(l: null, m: null, o: null) }", true);
    add("nullable arguments may be omitted", "{ arg3(m: [[1], null]) x @tag2(id: \"a\") }", true);
    add("nullable arguments may be omitted", "{ arg3(n: null) }", false);
    add("variables inside list and object literals", "query Q($a: Int!) { arg(req: 1, l: [$a]) }", true);
    add("variables inside list and object literals", "query Q($a: Int!, $b: ID!) { arg(req: 1, l: [1, $a, 2]) arg3(l: [$b], m: [[$a], [1, $a]], o: [{r: $a}]) }", true);
    add("variables inside list and object literals", "query Q($a: Int) { arg(req: 1, l: [$a]) }", false);
    add("variables inside list and object literals", "query Q($a: String!) { arg3(m: [[$a]]) }", false);
    add("variables inside list and object literals", "query Q($b: ID!) { x @tag2(id: $b, l: [$b, \"c\"]) }", true);
    add("literal values match the declared type", "{ arg(req: \"s\") }", false);
    add("literal values match the declared type", "{ arg(req: 1, e: C) }", false);
    add("literal values match the declared type", "{ arg(req: 1, i: {o: 1}) }", false);
    add("literal values match the declared type", "{ arg(req: 1, i: {r: 1, z: 1}) }", false);
    add("literal values match the declared type", "{ arg(req: 1, l: [1, null]) }", false);
    add("literal values match the declared type", "{ arg(req: 1, l: 3, e: null, i: null) }", true);
    // variables
    add("variables are uniquely named", "query Q($a: Int, $a: Int) { x }", false);
    add("variables are uniquely named", "query Q($a: Int, $b: Int) { x }", true);
    // a repeated name is a duplicate whatever the two declared types are (seeded change C03-11 keyed the seen list by name AND type)
    add("variables are uniquely named", "query Q($a: Int, $a: String) { x }", false);
    add("variables are uniquely named", "query Q($a: Int, $a: [Int!]!) { x }", false);
    add("variables are uniquely named", "query Q($a: Int, $b: String, $a: ID) { x }", false);
    add("variables are uniquely named", "query Q($a: Int, $b: Int, $b: Boolean, $c: Int) { arg(req: 1, opt: $a) }", false);
    add("variables are uniquely named", "query Q($a: Int, $b: String, $c: ID, $d: Int) { x }", true);
    add("variables are of input types", "query Q($a: K) { x }", false);
    add("variables are of input types", "query Q($a: [U!]) { x }", false);
    add("variables are of input types", "query Q($a: Nope) { x }", false);
    add("variables are of input types", "query Q($a: I, $b: [E!]!, $c: ID) { x }", true);
    add("variables are defined where used", "{ arg(req: $nope) }", false);
    add("variables are defined where used", "query Q($a: Int!) { arg(req: $b) }", false);
    add("variables are defined where used", "query Q($a: Int!) { arg(req: $a) }", true);
    add("variables are defined where used", "query Q($a: Boolean!) { x @skip(if: $a) k @include(if: $a) { id } }", true);
    add("variables are defined where used", "query Q { x @skip(if: $a) }", false);
    add("variables are type-compatible with their use", "query Q($a: Int) { arg(req: $a) }", false);
    add("variables are type-compatible with their use", "query Q($a: String!) { arg(req: $a) }", false);
    add("variables are type-compatible with their use", "query Q($a: Int!) { arg(req: 1, opt: $a) }", true);
    add("variables are type-compatible with their use", "query Q($a: [Int!]!) { arg(req: 1, l: $a) }", true);
    add("variables are type-compatible with their use", "query Q($a: [Int]) { arg(req: 1, l: $a) }", false);
    add("variables are type-compatible with their use", "query Q($a: Int) { arg(req: 1, l: $a) }", false);
    add("variables are type-compatible with their use", "query Q($a: Int!) { arg(req: 1, i: {r: $a}) }", true);
    add("variables are type-compatible with their use", "query Q($a: String) { arg(req: 1, i: {r: 1, o: $a}) }", false);
    add("variables are type-compatible with their use", "query Q($a: Int!) { x @skip(if: $a) }", false);
    // fragments
    add("fragments are uniquely named", "{ k { ...F } }\nfragment F on K { id }\nfragment F on K { kk }", false);
    add("fragments are uniquely named", "{ k { ...F ...G } }\nfragment F on K { id }\nfragment G on K { kk }", true);
    add("fragments target existing composite types", "{ k { ...F } }\nfragment F on Nope { id }", false);
    add("fragments target existing composite types", "{ k { ...F } }\nfragment F on E { id }", false);
    add("fragments target existing composite types", "{ k { ... on Nope { id } } }", false);
    add("fragments target existing composite types", "{ k { ... on Int { id } } }", false);
    add("fragments exist where spread", "{ k { ...Nope } }", false);
    add("fragments exist where spread", "{ k { ...F } }\nfragment F on K { ...Nope }", false);
    add("fragments never cycle", "{ k { ...A } }\nfragment A on K { ...B }\nfragment B on K { ...A }", false);
    add("fragments never cycle", "{ k { ...A } }\nfragment A on K { id ... on K { ...A } }", false);
    add("fragments never cycle", "{ k { ...A ...B } }\nfragment A on K { ...B }\nfragment B on K { id }", true);
    // directives
    add("directives exist", "{ x @nope }", false);
    add("directives exist", "query @nope { x }", false);
    add("directives exist", "{ k { ...F @nope } }\nfragment F on K { id }", false);
    add("directives exist", "{ k { ... @nope { id } } }", false);
    add("directives are allowed at their location", "{ x @onq }", false);
    add("directives are allowed at their location", "query @once { x }", false);
    add("directives are allowed at their location", "mutation @onq { mu }", false);
    add("directives are allowed at their location", "query @onq @many { x @once @many }", true);
    add("directives are allowed at their location", "{ k { ...F @skip(if: true) ... @include(if: false) { id } } }\nfragment F on K { id }", true);
    add("directives are not repeated unless repeatable", "{ x @once @once }", false);
    add("directives are not repeated unless repeatable", "{ x @skip(if: true) @skip(if: false) }", false);
    add("directives are not repeated unless repeatable", "{ x @many @many @once }", true);
    add("directives on fragment definitions", "query Q($v: Int) { k { ...F } }\nfragment F on K @fd(x: $v) { id }", true);
    add("directives on fragment definitions", "{ k { ...F ...G } }\nfragment F on K @fd(x: 1) @fd @fd1 { id }\nfragment G on K { kk }", true);
    add("directives on fragment definitions", "{ k { ...F } }\nfragment F on K @nope { id }", false);
    add("directives on fragment definitions", "{ k { ...F } }\nfragment F on K @skip(if: true) { id }", false);
    add("directives on fragment definitions", "{ k { ...F } }\nfragment F on K @fd1 @fd1 { id }", false);
    add("directives on fragment definitions", "{ k { ...F } }\nfragment F on K @fd(x: \"s\") { id }", false);
    add("directives on fragment definitions", "{ k { ...F } }\nfragment F on K @fd(x: $nope) { id }", false);
    add("directives on fragment definitions", "{ k { ...G } }\nfragment G on K { ...F }\nfragment F on K @once { id }", false);
    add("variables are type-compatible with their use", "query Q($a: Int = null) { arg(req: $a) }", false);
    add("variables are type-compatible with their use", "query Q($a: [Int!] = null) { arg(req: 1, l: $a) }", true);
    add("directive arguments", "{ x @skip }", false);
    add("directive arguments", "{ x @include(if: 1) }", false);
    add("directive arguments", "{ x @skip(if: true, unless: false) }", false);
    add("directive arguments", "{ x @skip(if: false) @include(if: true) }", true);
    v
}

fn main() {
    let args: Vec<String> = std::env::args().collect();
    let only: Option<usize> = args.iter().position(|a| a == "--one").and_then(|i| args.get(i + 1)).and_then(|x| x.parse().ok());
    let thorough = args.get(1).map(|a| a == "thorough").unwrap_or(false);
    let clip = std::env::var("VX_CLI").unwrap_or_default();
    let mut cases = spread_cases();
    if !thorough {
        // quick: every applicability pair, a third of the nested triples
        let mut n = 0;
        cases.retain(|c| {
            n += 1;
            c.family != "nested fragment applicability" || n % 3 == 0
        });
    }
    cases.extend(subscription_cases());
    cases.extend(import_cases());
    cases.extend(rule_cases());
    let tmp = std::env::temp_dir().join(format!("vx-opverdict-{}", std::process::id()));
    let config = "schema: ./schema/*.graphql\ndocuments: ./ops/**/*.graphql\n".to_string();
    let results = cli::par_map(cases.len(), &tmp, |i, dir| {
        if let Some(o) = only {
            if o != i {
                return None;
            }
        }
        let c = &cases[i];
        // a document may consist of several files: "<ops/o.graphql text>\n--- <path>\n<text>..."
        let mut files = vec![("graphql.config.yaml".to_string(), config.clone()), ("schema/s.graphql".to_string(), SCHEMA.to_string())];
        for (k, part) in c.doc.split("\n--- ").enumerate() {
            if k == 0 {
                files.push(("ops/o.graphql".to_string(), part.to_string()));
            } else {
                let (path, text) = part.split_once('\n').unwrap_or((part, ""));
                files.push((path.to_string(), text.to_string()));
            }
        }
        Some(cli::run(&clip, dir, &files, "check"))
    });
    let _ = std::fs::remove_dir_all(&tmp);
    let mut failures = vec![];
    let mut per_family: BTreeMap<String, usize> = BTreeMap::new();
    let mut evaluations = 0;
    let mut agree = (0usize, 0usize);
    for (i, (c, out)) in cases.iter().zip(results.iter()).enumerate() {
        let Some(out) = out else { continue };
        evaluations += 1;
        *per_family.entry(c.family.to_string()).or_default() += 1;
        let input = format!("[{}: {}]\n{}", c.family, c.label, c.doc);
        if out.timed_out {
            failures.push((i, format!("{}: check does not terminate within 20 s", c.family), input, c.why.clone(), String::new()));
            continue;
        }
        if out.panicked() || out.stderr.starts_with("harness:") {
            failures.push((i, format!("{}: check panics", c.family), input, c.why.clone(), out.stderr.chars().take(500).collect()));
            continue;
        }
        let accepted = out.check_passed();
        if accepted == c.expect_valid {
            if accepted { agree.0 += 1 } else { agree.1 += 1 }
            continue;
        }
        let msg: String = out.stderr.lines().filter(|l| !l.trim().is_empty()).take(4).collect::<Vec<_>>().join(" | ").chars().take(300).collect();
        let sig = format!("{}: {} although {}", c.family, if accepted { "accepted" } else { "rejected" }, if c.family == "fragment body validation" { if c.expect_valid { "the selected field exists".to_string() } else { "the selected field does not exist on the condition type".to_string() } } else if c.family.contains("applicability") { if c.expect_valid { "the types share a possible type".to_string() } else { "the types share no possible type".to_string() } } else { c.why.clone() });
        failures.push((i, sig, input, format!("expected {}: {}", if c.expect_valid { "valid" } else { "invalid" }, c.why), msg));
    }
    per_family.insert("agreed: accepted".into(), agree.0);
    per_family.insert("agreed: rejected".into(), agree.1);
    let samples: Vec<String> = cases.iter().enumerate().filter(|(i, _)| i % (cases.len() / 8).max(1) == 1).take(8).map(|(i, c)| format!("[#{i} {}: {}] expect {}", c.family, c.label, if c.expect_valid { "valid" } else { "invalid" })).collect();
    cli::report(evaluations, per_family, samples, failures);
}
