//! bounded check jsonrt (C12): see ../lib.rs
fn main() {
    vx_bounded::run_main(vx_bounded::check_doc, |_, _| {});
}
