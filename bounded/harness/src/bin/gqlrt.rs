//! BOUNDED stand-in (not a proof) for property C16, second sentence: "printing any document nitrogql can parse and
//! re-parsing the text yields the same document", on crates/printer/src/graphql_printer/{ast,base,ext}.rs (about sixty
//! GraphQLPrinter impls whose inverse is the pest parser: no contract within reach can state it).
//! For every enumerated source text T:  A = parse(T);  P = print_graphql(A) through the real JustWriter;
//! A' = parse(P);  A and A' must be equal up to positions (compared through their derived Debug rendering with every
//! `Pos { .. }` erased).  The real crates of the working tree are linked as they are.
use nitrogql_parser::{parse_operation_document, parse_type_system_document};
use nitrogql_printer::GraphQLPrinter;
use sourcemap_writer::JustWriter;
use vx_bounded::{Failure, MDef};

/// erase `Pos { .. }` values from a Debug rendering
fn erase_pos(s: &str) -> String {
    let mut out = String::with_capacity(s.len());
    let mut rest = s;
    while let Some(i) = rest.find("Pos {") {
        out.push_str(&rest[..i]);
        out.push('_');
        match rest[i..].find('}') {
            Some(j) => rest = &rest[i + j + 1..],
            None => {
                rest = "";
            }
        }
    }
    out.push_str(rest);
    out
}

/// `Struct.field` that encloses the first difference of two Debug renderings
fn diff_site(a: &str, b: &str) -> String {
    let n = a.bytes().zip(b.bytes()).take_while(|(x, y)| x == y).count();
    let mut n = n.min(a.len());
    while !a.is_char_boundary(n) {
        n -= 1;
    }
    let head = &a[..n];
    // stack of (name in front of the bracket, last `field:` seen at that level)
    let mut stack: Vec<(String, String)> = vec![];
    let mut word = String::new();
    let mut last_word = String::new();
    let mut in_str = false;
    let mut esc = false;
    for c in head.chars() {
        if in_str {
            if esc { esc = false; } else if c == '\\' { esc = true; } else if c == '"' { in_str = false; }
            continue;
        }
        match c {
            '"' => in_str = true,
            '{' | '(' | '[' => {
                let name = if word.is_empty() { last_word.clone() } else { word.clone() };
                stack.push((name, String::new()));
                word.clear();
                last_word.clear();
            }
            '}' | ')' | ']' => {
                stack.pop();
                word.clear();
            }
            ':' => {
                if let Some(top) = stack.last_mut() {
                    top.1 = if word.is_empty() { last_word.clone() } else { word.clone() };
                }
                word.clear();
            }
            c if c.is_alphanumeric() || c == '_' || c == '#' => word.push(c),
            _ => {
                if !word.is_empty() {
                    last_word = word.clone();
                    word.clear();
                }
            }
        }
    }
    // innermost enclosing struct with a named field, skipping wrappers
    for (name, field) in stack.iter().rev() {
        if !field.is_empty() && name.chars().next().map(|c| c.is_uppercase()).unwrap_or(false) && name != "Some" && name != "Ident" && name != "StringValue" {
            return format!("{name}.{field}");
        }
    }
    match stack.last() {
        Some((name, field)) => format!("{name}.{field}"),
        None => "(top level)".into(),
    }
}

/// classes of the string literals of a generated source text (one-line escaped literals only; the generators write every
/// string as "..." with \n for line feeds).  Priority: the classes of the recorded known findings first.
fn string_class(text: &str) -> Option<&'static str> {
    let mut classes: Vec<&'static str> = vec![];
    let b: Vec<char> = text.chars().collect();
    let mut i = 0;
    while i < b.len() {
        if b[i] == '"' {
            if i + 2 < b.len() && b[i + 1] == '"' && b[i + 2] == '"' {
                // block string in a generated source (contents are fixed plain text): multi-line if it spans lines
                let mut j = i + 3;
                let mut nl = false;
                while j + 2 < b.len() && !(b[j] == '"' && b[j + 1] == '"' && b[j + 2] == '"') { if b[j] == '\n' { nl = true; } j += 1; }
                if nl { classes.push("multi-line string"); }
                i = j + 3;
                continue;
            }
            let mut j = i + 1;
            let mut multi = false;
            let mut special = false;
            let mut last_special = false;
            while j < b.len() && b[j] != '"' {
                if b[j] == '\\' && j + 1 < b.len() {
                    match b[j + 1] {
                        'n' => { multi = true; last_special = false; }
                        '"' | '\\' => { special = true; last_special = true; }
                        _ => { last_special = false; }
                    }
                    j += 2;
                } else {
                    last_special = false;
                    j += 1;
                }
            }
            if multi && last_special { classes.push("multi-line string ending in quote or backslash"); }
            else if multi { classes.push("multi-line string"); }
            else if special { classes.push("one-line string with quote or backslash"); }
            i = j + 1;
        } else {
            i += 1;
        }
    }
    for c in ["one-line string with quote or backslash", "multi-line string ending in quote or backslash", "multi-line string"] {
        if classes.contains(&c) { return Some(c); }
    }
    None
}
/// the construct a source text starts with (`extend union`, `type`, `query` ..), for failure signatures
fn construct(text: &str) -> String {
    let t = text.trim_start();
    let t = if t.starts_with('"') { match t.rfind("\" ") { Some(i) => &t[i + 2..], None => t } } else { t };
    let mut w = t.split_whitespace();
    match (w.next(), w.next()) {
        (Some("extend"), Some(k)) => format!("extend {}", k.trim_end_matches(|c: char| !c.is_alphanumeric())),
        (Some(k), _) => k.trim_end_matches(|c: char| !c.is_alphanumeric()).to_string(),
        _ => String::new(),
    }
}

enum Kind {
    Operation,
    TypeSystem,
}

fn round_trip(kind: Kind, family: &'static str, source: &str, string_class: Option<&str>) -> Vec<Failure> {
    let mut fs = vec![];
    let mut fail = |sig: String, why: String, got: String| {
        let sig = match string_class {
            Some(c) => format!("string literal [{c}]: {sig}"),
            None => sig,
        };
        fs.push(Failure { signature: sig, family, index: 0, graphql: source.to_string(), definition: "(document)".into(), why, got })
    };
    let (d1, printed) = match kind {
        Kind::Operation => match parse_operation_document(source) {
            Err(e) => {
                fail("generator: the source text does not parse".into(), format!("{e:?}").chars().take(300).collect(), String::new());
                return fs;
            }
            Ok(a) => {
                let mut p = String::new();
                {
                    let mut w = JustWriter::new(&mut p);
                    a.print_graphql(&mut w);
                }
                (erase_pos(&format!("{a:?}")), p)
            }
        },
        Kind::TypeSystem => match parse_type_system_document(source) {
            Err(e) => {
                fail("generator: the source text does not parse".into(), format!("{e:?}").chars().take(300).collect(), String::new());
                return fs;
            }
            Ok(a) => {
                let mut p = String::new();
                {
                    let mut w = JustWriter::new(&mut p);
                    a.print_graphql(&mut w);
                }
                (erase_pos(&format!("{a:?}")), p)
            }
        },
    };
    let d2 = match kind {
        Kind::Operation => parse_operation_document(&printed).map(|a| erase_pos(&format!("{a:?}"))).map_err(|e| format!("{e:?}")),
        Kind::TypeSystem => parse_type_system_document(&printed).map(|a| erase_pos(&format!("{a:?}"))).map_err(|e| format!("{e:?}")),
    };
    match d2 {
        Err(e) => fail(format!("the printed text of `{}` does not parse", construct(source)), format!("parse error on the printed text: {}", e.chars().take(300).collect::<String>()), printed),
        Ok(d2) => {
            if d1 != d2 {
                let site = diff_site(&d1, &d2);
                fail(format!("the re-parsed document differs at {site}"), format!("parse(print(A)) differs from A at {site}"), printed);
            }
        }
    }
    fs
}

fn check_operation_doc(family: &'static str, _index: usize, defs: &[MDef], failures: &mut Vec<Failure>) {
    let source = defs.iter().map(vx_bounded::show_def).collect::<Vec<_>>().join("\n");
    failures.extend(round_trip(Kind::Operation, family, &source, string_class(&source)));
}

// ------------------------------------------------------------------------------------------------ type system documents
fn descriptions() -> Vec<&'static str> {
    vec!["", "\"plain description\" ", "\"\"\"\nblock\ndescription\n\"\"\" "]
}
fn directive_uses() -> Vec<&'static str> {
    vec!["", " @d", " @d(a: 1) @e(s: \"x\", l: [1, 2], o: {k: V})"]
}
fn type_system_sources(thorough: bool) -> Vec<(&'static str, String)> {
    let mut v: Vec<(&'static str, String)> = vec![];
    let field_sets = [
        "f: Int",
        "f: Int g(a: Int): [T!]!",
        "\"field doc\" f(\"arg doc\" a: Int = 1 @d, b: [S!]! = [\"x\"] , c: In = {k: 1, l: [true, null]}): T! @d @e(x: E)",
        "\"\"\"\nblock\nfield doc\n\"\"\" f: [[Int]]",
        "f(a: Int = null, b: [S!] = null, c: In = null @d, d: Boolean = false, e: Int = 0, g: String = \"\"): Int",
    ];
    let input_sets = ["a: Int", "a: Int = 3 @d b: [In!] \"doc\" c: String = \"s\"", "a: In = {x: 1, y: {z: [1, 2]}}", "a: Int = null b: [Int!] = null c: In = null d: [In] = [null]"];
    let enum_sets = ["A", "A B C", "\"doc a\" A @d B @d(a: 1) \"\"\"\nblock\ndoc\n\"\"\" C"];
    for de in descriptions() {
        for di in directive_uses() {
            v.push(("sdl-scalar", format!("{de}scalar S{di}")));
            v.push(("sdl-schema", format!("{de}schema{di} {{ query: Q }}")));
            v.push(("sdl-schema", format!("{de}schema{di} {{ query: Q mutation: M subscription: S }}")));
            for fs in field_sets {
                for im in ["", " implements I", " implements I & J"] {
                    v.push(("sdl-object", format!("{de}type T{im}{di} {{ {fs} }}")));
                    if thorough || im != " implements I" {
                        v.push(("sdl-interface", format!("{de}interface N{im}{di} {{ {fs} }}")));
                    }
                }
            }
            for m in ["A", "A | B", "A | B | C", "A | B | C | D", "A | B | C | D | E", "A | B | C | D | E | F | G | H | I", "M1 | M2 | M3 | M4 | M5 | M6 | M7 | M8 | M9 | M10 | M11 | M12 | M13 | M14 | M15 | M16 | M17"] {
                v.push(("sdl-union", format!("{de}union U{di} = {m}")));
            }
            for es in enum_sets {
                v.push(("sdl-enum", format!("{de}enum E{di} {{ {es} }}")));
            }
            for is in input_sets {
                v.push(("sdl-input", format!("{de}input In{di} {{ {is} }}")));
            }
        }
        for args in ["", "(a: Int)", "(a: Int = 1 @d, \"doc\" b: [S!]! = [])", "(a: Int = null, b: In = null)"] {
            for rep in ["", " repeatable"] {
                for loc in ["FIELD", "FIELD | QUERY | FRAGMENT_SPREAD", "OBJECT | FIELD_DEFINITION | ARGUMENT_DEFINITION | ENUM_VALUE"] {
                    v.push(("sdl-directive", format!("{de}directive @dd{args}{rep} on {loc}")));
                }
            }
        }
    }
    for di in directive_uses() {
        if !di.is_empty() {
            v.push(("sdl-extend", format!("extend scalar S{di}")));
            v.push(("sdl-extend", format!("extend schema{di}")));
            v.push(("sdl-extend", format!("extend type T{di}")));
            v.push(("sdl-extend", format!("extend interface N{di}")));
            v.push(("sdl-extend", format!("extend union U{di}")));
            v.push(("sdl-extend", format!("extend enum E{di}")));
            v.push(("sdl-extend", format!("extend input In{di}")));
        }
        v.push(("sdl-extend", format!("extend schema{di} {{ subscription: S }}")));
        for fs in field_sets {
            v.push(("sdl-extend", format!("extend type T{di} {{ {fs} }}")));
            v.push(("sdl-extend", format!("extend type T implements I & J{di} {{ {fs} }}")));
            v.push(("sdl-extend", format!("extend interface N{di} {{ {fs} }}")));
            v.push(("sdl-extend", format!("extend interface N implements I{di} {{ {fs} }}")));
        }
        v.push(("sdl-extend", format!("extend type T implements I{di}")));
        v.push(("sdl-extend", format!("extend union U{di} = C | D")));
        v.push(("sdl-extend", format!("extend union U{di} = C | D | E | F | G")));
        v.push(("sdl-extend", format!("extend union U{di} = C | D | E | F | G | H | I | J | K | L")));
        for es in enum_sets {
            v.push(("sdl-extend", format!("extend enum E{di} {{ {es} }}")));
        }
        for is in input_sets {
            v.push(("sdl-extend", format!("extend input In{di} {{ {is} }}")));
        }
    }
    // several definitions in one document, in every order of a few
    let a = ["scalar S", "type T { f: Int }", "\"doc\" enum E { A }", "extend type T { g: S }", "directive @d on FIELD", "schema { query: T }"];
    for i in 0..a.len() {
        for j in 0..a.len() {
            if i != j {
                v.push(("sdl-multi", format!("{}\n{}", a[i], a[j])));
            }
        }
    }
    v
}

/// strings (descriptions and default values): content -> a source literal that denotes it
fn string_cases() -> Vec<(&'static str, String)> {
    let contents: Vec<(&'static str, &str)> = vec![
        ("plain", "plain"),
        ("plain", ""),
        ("plain", "caf\u{e9} \u{2603} \u{1F600}"),
        ("plain", "tab\there"),
        ("plain", "a ` b ${c} d"),
        ("plain", "esc \u{1b} vt \u{b} del \u{7f} c1 \u{9f} x"),
        ("plain", "bell\u{7}"),
        ("plain", "say \"hi\""),
        ("plain", "back\\slash"),
        ("plain", "\"\"\""),
        ("plain", "line1\nline2"),
        ("plain", "line1\n  indented\nline3"),
        ("plain", "multi \"quoted\" word\nnext \\ line"),
        ("plain", "three \"\"\" quotes\ninside"),
        ("plain", "ends with quote\n\""),
        ("plain", "ends with backslash\n\\"),
    ];
    let mut v = vec![];
    for (class, c) in contents {
        let mut lit = String::from("\"");
        for ch in c.chars() {
            match ch {
                '"' => lit.push_str("\\\""),
                '\\' => lit.push_str("\\\\"),
                '\n' => lit.push_str("\\n"),
                '\t' => lit.push_str("\\t"),
                c if c.is_control() => lit.push_str(&format!("\\u{:04X}", c as u32)),
                c => lit.push(c),
            }
        }
        lit.push('"');
        let _ = class;
        v.push(("top", format!("{lit} scalar S")));
        v.push(("nested", format!("type T {{ {lit} f(a: String = {lit}): Int @d(s: {lit}) }}")));
    }
    v
}

fn main() {
    vx_bounded::run_main(check_operation_doc, |thorough, sink| {
        for (family, src) in type_system_sources(thorough) {
            let fs = std::panic::catch_unwind(std::panic::AssertUnwindSafe(|| round_trip(Kind::TypeSystem, family, &src, string_class(&src)))).unwrap_or_else(|_| {
                vec![Failure { signature: "the code under test panicked".into(), family, index: 0, graphql: src.clone(), definition: "(document)".into(), why: "the code under test panicked".into(), got: String::new() }]
            });
            sink(family, src, fs);
        }
        for (_place, src) in string_cases() {
            let class = string_class(&src);
            let fs = std::panic::catch_unwind(std::panic::AssertUnwindSafe(|| round_trip(Kind::TypeSystem, "strings", &src, class))).unwrap_or_else(|_| {
                vec![Failure { signature: format!("string literal [{class:?}]: the code under test panicked"), family: "strings", index: 0, graphql: src.clone(), definition: "(document)".into(), why: "the code under test panicked".into(), got: String::new() }]
            });
            sink("strings", src, fs);
        }
    });
}
