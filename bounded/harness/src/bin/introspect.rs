//! BOUNDED stand-in (not a proof) for property C09 on the path that takes a schema from introspection JSON to the types
//! Variables refer to: crates/introspection (JSON -> type system), crates/semantics/src/type_system_to_ast.rs
//! (convert_type and friends) - serde-deserialised, iterator-built structures that no contract reaches.  (The mapping
//! from a GraphQL type to the TypeScript type of a variable IS proved: units tstype, vardefs_ts.)
//! For every input type of a stated family the real `nitrogql generate` is run twice - once with the schema as SDL,
//! once with the equivalent introspection JSON written by this program - and the `__OperationInput` namespace of the
//! schema declaration file and the `<Operation>Variables` type of the operation declaration file must be identical.
//! usage: introspect <quick|thorough> [--one <index>]     env: VX_CLI
use std::collections::BTreeMap;

use vx_bounded::cli;

#[derive(Clone, Debug)]
enum Ty {
    Named(&'static str),
    List(Box<Ty>),
    NonNull(Box<Ty>),
}
fn sdl(t: &Ty) -> String {
    match t {
        Ty::Named(n) => n.to_string(),
        Ty::List(i) => format!("[{}]", sdl(i)),
        Ty::NonNull(i) => format!("{}!", sdl(i)),
    }
}
fn kind_of(name: &str) -> &'static str {
    match name {
        "Grid" => "INPUT_OBJECT",
        "Color" => "ENUM",
        "Query" => "OBJECT",
        _ => "SCALAR",
    }
}
fn json(t: &Ty) -> String {
    match t {
        Ty::Named(n) => format!("{{\"kind\":\"{}\",\"name\":\"{n}\",\"ofType\":null}}", kind_of(n)),
        Ty::List(i) => format!("{{\"kind\":\"LIST\",\"name\":null,\"ofType\":{}}}", json(i)),
        Ty::NonNull(i) => format!("{{\"kind\":\"NON_NULL\",\"name\":null,\"ofType\":{}}}", json(i)),
    }
}
/// every wrapping of the base names up to list depth 3 (NonNull never directly inside NonNull)
fn types(thorough: bool) -> Vec<Ty> {
    let mut layers: Vec<Vec<Ty>> = vec![["Int", "String", "Grid", "Color"].iter().map(|n| Ty::Named(n)).collect()];
    for _ in 0..3 {
        let prev = layers.last().unwrap().clone();
        let mut next = vec![];
        for p in &prev {
            for inner in [p.clone(), Ty::NonNull(Box::new(p.clone()))] {
                if matches!(p, Ty::NonNull(_)) {
                    continue;
                }
                next.push(Ty::List(Box::new(inner)));
            }
        }
        layers.push(next);
    }
    let mut all = vec![];
    for l in layers {
        for t in l {
            all.push(t.clone());
            all.push(Ty::NonNull(Box::new(t)));
        }
    }
    if !thorough {
        let mut n = 0;
        all.retain(|t| {
            n += 1;
            sdl(t).matches('[').count() < 3 || n % 4 == 0
        });
    }
    all
}
fn input_value(name: &str, t: &Ty, default: Option<&str>) -> String {
    format!("{{\"name\":\"{name}\",\"description\":null,\"type\":{},\"defaultValue\":{}}}", json(t), default.map(|d| format!("\"{d}\"")).unwrap_or("null".into()))
}
fn scalar(name: &str) -> String {
    format!("{{\"kind\":\"SCALAR\",\"name\":\"{name}\",\"description\":null,\"fields\":null,\"inputFields\":null,\"interfaces\":null,\"enumValues\":null,\"possibleTypes\":null}}")
}

struct Case {
    label: String,
    sdl: String,
    json: String,
    op: String,
}
fn cases(thorough: bool) -> Vec<Case> {
    let mut v = vec![];
    for t in types(thorough) {
        let s = sdl(&t);
        let sdl_text = format!("type Query {{ q(g: Grid, x: {s}): Int }}\ninput Grid {{ cells: {s} name: String }}\nenum Color {{ RED GREEN }}\n");
        let int = Ty::Named("Int");
        let string = Ty::Named("String");
        let grid = Ty::Named("Grid");
        let json_text = format!(
            "{{\"__schema\":{{\"description\":null,\"queryType\":{{\"name\":\"Query\"}},\"mutationType\":null,\"subscriptionType\":null,\"directives\":[],\"types\":[{},{},{},{},{},{{\"kind\":\"OBJECT\",\"name\":\"Query\",\"description\":null,\"fields\":[{{\"name\":\"q\",\"description\":null,\"args\":[{},{}],\"type\":{},\"isDeprecated\":false,\"deprecationReason\":null}}],\"inputFields\":null,\"interfaces\":[],\"enumValues\":null,\"possibleTypes\":null}},{{\"kind\":\"INPUT_OBJECT\",\"name\":\"Grid\",\"description\":null,\"fields\":null,\"inputFields\":[{},{}],\"interfaces\":null,\"enumValues\":null,\"possibleTypes\":null}},{{\"kind\":\"ENUM\",\"name\":\"Color\",\"description\":null,\"fields\":null,\"inputFields\":null,\"interfaces\":null,\"enumValues\":[{{\"name\":\"RED\",\"description\":null,\"isDeprecated\":false,\"deprecationReason\":null}},{{\"name\":\"GREEN\",\"description\":null,\"isDeprecated\":false,\"deprecationReason\":null}}],\"possibleTypes\":null}}]}}}}",
            scalar("Int"), scalar("Float"), scalar("String"), scalar("Boolean"), scalar("ID"),
            input_value("g", &grid, None), input_value("x", &t, None), json(&int),
            input_value("cells", &t, None), input_value("name", &string, None)
        );
        v.push(Case { label: format!("input field / argument / variable of type {s}"), sdl: sdl_text, json: json_text, op: format!("query Q($v: {s}, $g: Grid) {{ q(g: $g, x: $v) }}\n") });
    }
    v
}
/// the body of `export declare namespace __OperationInput { .. }`
fn namespace(ts: &str, ns: &str) -> Option<String> {
    let start = ts.find(&format!("export declare namespace {ns} {{"))?;
    let b = &ts[start..];
    let body: Vec<&str> = b[..b.find("\n}\n").unwrap_or(b.len())].lines().skip(1).map(|l| l.trim_end()).filter(|l| !l.is_empty()).collect();
    // the declarations, each possibly spanning several lines, in name order (the two loaders list types in different orders)
    let mut decls: Vec<String> = vec![];
    for l in body {
        if l.starts_with("  export type ") || l.starts_with("  type ") || decls.is_empty() {
            decls.push(l.to_string());
        } else {
            let last = decls.last_mut().unwrap();
            last.push('\n');
            last.push_str(l);
        }
    }
    decls.sort();
    Some(decls.join("\n"))
}
fn variables_type(ts: &str) -> Option<String> {
    let start = ts.find("type QVariables = ")?;
    let b = &ts[start..];
    Some(b[..b.find("};").map(|i| i + 2).unwrap_or(b.len())].to_string())
}

fn main() {
    let args: Vec<String> = std::env::args().collect();
    let thorough = args.get(1).map(|a| a == "thorough").unwrap_or(false);
    let only: Option<usize> = args.iter().position(|a| a == "--one").and_then(|i| args.get(i + 1)).and_then(|x| x.parse().ok());
    let clip = std::env::var("VX_CLI").unwrap_or_default();
    let cases = cases(thorough);
    let tmp = std::env::temp_dir().join(format!("vx-introspect-{}", std::process::id()));
    let results = cli::par_map(cases.len() * 2, &tmp, |k, dir| {
        let i = k / 2;
        if let Some(o) = only {
            if o != i {
                return None;
            }
        }
        let c = &cases[i];
        let from_json = k % 2 == 1;
        let config = format!("schema: ./schema/s.{}\ndocuments: ./ops/*.graphql\nextensions:\n  nitrogql:\n    generate:\n      schemaOutput: ./out/schema.d.ts\n", if from_json { "json" } else { "graphql" });
        let files = vec![
            ("graphql.config.yaml".to_string(), config),
            (format!("schema/s.{}", if from_json { "json" } else { "graphql" }), if from_json { c.json.clone() } else { c.sdl.clone() }),
            ("ops/q.graphql".to_string(), c.op.clone()),
            ("out/.keep".to_string(), String::new()),
        ];
        let out = cli::run(&clip, dir, &files, "generate");
        let schema_ts = std::fs::read_to_string(dir.join("out/schema.d.ts")).ok();
        let op_ts = std::fs::read_to_string(dir.join("ops/q.d.graphql.ts")).ok();
        Some((out, schema_ts, op_ts))
    });
    let _ = std::fs::remove_dir_all(&tmp);
    let mut failures = vec![];
    let mut per_family: BTreeMap<String, usize> = BTreeMap::new();
    let mut evaluations = 0;
    for (i, c) in cases.iter().enumerate() {
        let (Some(a), Some(b)) = (&results[2 * i], &results[2 * i + 1]) else { continue };
        evaluations += 1;
        let input = format!("[{}]\n--- SDL\n{}--- operation\n{}", c.label, c.sdl, c.op);
        let mut fail = |sig: &str, why: String, got: String| failures.push((i, sig.to_string(), input.clone(), why, got));
        let mut broken = false;
        for (which, r) in [("SDL", a), ("introspection JSON", b)] {
            if r.0.timed_out || r.0.panicked() || r.0.stderr.starts_with("harness:") {
                fail(&format!("generate panics or does not terminate ({which} schema)"), String::new(), r.0.stderr.chars().take(500).collect());
                broken = true;
            } else if !r.0.stderr.contains("'generate' finished") {
                fail(&format!("generate fails on a valid project ({which} schema)"), String::new(), r.0.stderr.chars().take(500).collect());
                broken = true;
            }
        }
        if broken {
            continue;
        }
        let (na, nb) = (namespace(a.1.as_deref().unwrap_or(""), "__OperationInput"), namespace(b.1.as_deref().unwrap_or(""), "__OperationInput"));
        let (va, vb) = (variables_type(a.2.as_deref().unwrap_or("")), variables_type(b.2.as_deref().unwrap_or("")));
        if na.is_none() || va.is_none() {
            fail("harness: the SDL project's output does not have the expected shape", String::new(), String::new());
        } else if na != nb {
            fail("the __OperationInput namespace generated from introspection JSON differs from the one generated from the equivalent SDL", format!("from SDL:\n{}", na.unwrap_or_default()), nb.unwrap_or_default());
        } else if va != vb {
            fail("the Variables type generated with an introspection JSON schema differs from the one generated with the equivalent SDL", format!("from SDL:\n{}", va.unwrap_or_default()), vb.unwrap_or_default());
        } else {
            *per_family.entry("agreed".into()).or_default() += 1;
        }
    }
    per_family.insert("types".into(), evaluations);
    let samples: Vec<String> = cases.iter().enumerate().filter(|(i, _)| i % (cases.len() / 6).max(1) == 1).take(6).map(|(i, c)| format!("[#{i}] {}", c.label)).collect();
    cli::report(evaluations, per_family, samples, failures);
}
