//! BOUNDED stand-in (not a proof) behind the contract on crates/checker/src/common.rs check_value /
//! is_value_compatible_type_def (units value, value_obj): the contract's loop invariants name locals of the code, so a
//! rewrite that renames them leaves the units UNDECIDED (lost anchor, never an alarm) - this check then still decides
//! the literal-value rule of properties C03 / C04 / C05 on a stated finite family.
//! The real `nitrogql-cli check` is run on one project per (declared type, literal value, place) and its verdict
//! (accepted / rejected) is compared with an independent executable reading of the GraphQL specification's
//! "Values of Correct Type" rule including input coercion of a single value to a list.
//! usage: valueverdict <schema|operation> <quick|thorough> [--one <index>]     env: VX_CLI
use std::collections::BTreeMap;

use vx_bounded::cli;

#[derive(Clone, Debug, PartialEq)]
enum Ty {
    Named(&'static str),
    List(Box<Ty>),
    NonNull(Box<Ty>),
}
fn show(t: &Ty) -> String {
    match t {
        Ty::Named(n) => n.to_string(),
        Ty::List(i) => format!("[{}]", show(i)),
        Ty::NonNull(i) => format!("{}!", show(i)),
    }
}
#[derive(Clone, Debug, PartialEq)]
enum V {
    Null,
    Int,
    Float,
    Str,
    Bool,
    Enum(&'static str),
    List(Vec<V>),
    Obj(Vec<(&'static str, V)>),
}
fn showv(v: &V) -> String {
    match v {
        V::Null => "null".into(),
        V::Int => "7".into(),
        V::Float => "1.5".into(),
        V::Str => "\"s\"".into(),
        V::Bool => "true".into(),
        V::Enum(n) => n.to_string(),
        V::List(xs) => format!("[{}]", xs.iter().map(showv).collect::<Vec<_>>().join(", ")),
        V::Obj(fs) => format!("{{{}}}", fs.iter().map(|(k, v)| format!("{k}: {}", showv(v))).collect::<Vec<_>>().join(", ")),
    }
}
const NAMES: [&str; 7] = ["Int", "Float", "String", "Boolean", "ID", "Color", "In"];
/// `input In` of the schema below: (field, type, has a default)
fn in_fields() -> Vec<(&'static str, Ty, bool)> {
    let n = |x| Ty::Named(x);
    vec![
        ("req", Ty::NonNull(Box::new(n("Int"))), false),
        ("opt", n("String"), false),
        ("dflt", Ty::NonNull(Box::new(n("Int"))), true),
        ("color", n("Color"), false),
        ("nested", n("In"), false),
        ("list", Ty::List(Box::new(Ty::NonNull(Box::new(n("Int"))))), false),
    ]
}
const DEFS: &str = "enum Color { RED GREEN }\ninput In { req: Int! opt: String dflt: Int! = 1 color: Color nested: In list: [Int!] }\n";

/// "Values of Correct Type" (spec 5.6.1) with the input coercion rules of 3.11 / 3.12 (a non-list value where a list is
/// expected is a list of one item; null fits every nullable type) for constant literals
fn fits(t: &Ty, v: &V) -> bool {
    match t {
        Ty::NonNull(i) => *v != V::Null && fits(i, v),
        _ if *v == V::Null => true,
        Ty::List(i) => match v {
            V::List(xs) => xs.iter().all(|x| fits(i, x)),
            single => fits(i, single),
        },
        Ty::Named(n) => match (*n, v) {
            ("Int", V::Int) => true,
            ("Float", V::Int | V::Float) => true,
            ("String", V::Str) => true,
            ("Boolean", V::Bool) => true,
            ("ID", V::Str | V::Int) => true,
            ("Color", V::Enum(m)) => *m == "RED" || *m == "GREEN",
            ("In", V::Obj(fs)) => {
                let defs = in_fields();
                fs.iter().all(|(k, x)| defs.iter().any(|(n, t, _)| n == k && fits(t, x)))
                    && defs.iter().all(|(n, t, dflt)| fs.iter().any(|(k, _)| k == n) || !matches!(t, Ty::NonNull(_)) || *dflt)
            }
            _ => false,
        },
    }
}
fn types() -> Vec<Ty> {
    let mut v = vec![];
    for n in NAMES {
        let t = Ty::Named(n);
        let nn = |x: Ty| Ty::NonNull(Box::new(x));
        let l = |x: Ty| Ty::List(Box::new(x));
        v.push(t.clone());
        v.push(nn(t.clone()));
        v.push(l(t.clone()));
        v.push(l(nn(t.clone())));
        v.push(nn(l(t.clone())));
        v.push(nn(l(nn(t.clone()))));
        v.push(l(l(t.clone())));
        v.push(l(nn(l(nn(t.clone())))));
    }
    v
}
fn values() -> Vec<V> {
    let atoms = vec![V::Null, V::Int, V::Float, V::Str, V::Bool, V::Enum("RED"), V::Enum("PURPLE")];
    let objs = vec![
        V::Obj(vec![("req", V::Int)]),
        V::Obj(vec![]),
        V::Obj(vec![("req", V::Null)]),
        V::Obj(vec![("req", V::Int), ("unknown", V::Int)]),
        V::Obj(vec![("req", V::Int), ("dflt", V::Null)]),
        V::Obj(vec![("req", V::Int), ("opt", V::Null), ("color", V::Enum("GREEN"))]),
        V::Obj(vec![("req", V::Int), ("color", V::Str)]),
        V::Obj(vec![("req", V::Int), ("nested", V::Obj(vec![("req", V::Str)]))]),
        V::Obj(vec![("req", V::Int), ("nested", V::Obj(vec![("req", V::Int), ("nested", V::Obj(vec![]))]))]),
        V::Obj(vec![("req", V::Int), ("nested", V::Obj(vec![("req", V::Int), ("nested", V::Null)]))]),
        V::Obj(vec![("req", V::Int), ("list", V::List(vec![V::Int, V::Null]))]),
        V::Obj(vec![("req", V::Int), ("list", V::List(vec![V::Int, V::Int]))]),
        V::Obj(vec![("req", V::Int), ("list", V::Int)]),
        V::Obj(vec![("req", V::Int), ("list", V::List(vec![V::List(vec![V::Int])]))]),
        V::Obj(vec![("opt", V::Str)]),
    ];
    let mut v = atoms.clone();
    v.extend(objs.clone());
    let core: Vec<V> = vec![V::Null, V::Int, V::Float, V::Str, V::Bool, V::Enum("GREEN"), V::Enum("PURPLE"), objs[0].clone(), objs[1].clone()];
    v.push(V::List(vec![]));
    for a in &core {
        v.push(V::List(vec![a.clone()]));
        v.push(V::List(vec![V::List(vec![a.clone()])]));
        v.push(V::List(vec![V::List(vec![a.clone()]), V::Null]));
        v.push(V::List(vec![V::List(vec![a.clone(), V::Null]), V::List(vec![])]));
        v.push(V::List(vec![V::List(vec![V::List(vec![a.clone()])])]));
        for b in &core {
            v.push(V::List(vec![a.clone(), b.clone()]));
        }
    }
    v
}

struct Case {
    family: &'static str,
    label: String,
    schema: String,
    operation: Option<String>,
    expect_valid: bool,
    why: String,
}
fn cases(which: &str, _thorough: bool) -> Vec<Case> {
    let mut out = vec![];
    let (ts, vs) = (types(), values());
    for t in &ts {
        for v in &vs {
            let ok = fits(t, v);
            let (st, sv) = (show(t), showv(v));
            let why = if ok { format!("{sv} is a value of type {st} (spec: Values of Correct Type, with input coercion)") } else { format!("{sv} is not a value of type {st}") };
            if which == "schema" {
                out.push(Case {
                    family: "directive argument in the schema",
                    label: format!("@d(x: {sv}) where x: {st}"),
                    schema: format!("{DEFS}directive @d(x: {st}) on FIELD_DEFINITION\ntype Query {{ q: Int @d(x: {sv}) }}\n"),
                    operation: None,
                    expect_valid: ok,
                    why,
                });
            } else {
                let schema = format!("{DEFS}directive @d(x: {st}) on FIELD\ntype Query {{ q(x: {st}): Int p: Int }}\n");
                out.push(Case { family: "field argument in an operation", label: format!("q(x: {sv}) where x: {st}"), schema: schema.clone(), operation: Some(format!("query {{ q(x: {sv}) }}\n")), expect_valid: ok, why: why.clone() });
                {
                    out.push(Case { family: "directive argument in an operation", label: format!("@d(x: {sv}) where x: {st}"), schema, operation: Some(format!("query {{ p @d(x: {sv}) }}\n")), expect_valid: ok, why });
                }
            }
        }
    }
    out
}

fn main() {
    let args: Vec<String> = std::env::args().collect();
    let which = args.get(1).cloned().unwrap_or_default();
    let thorough = args.get(2).map(|a| a == "thorough").unwrap_or(false);
    let only: Option<usize> = args.iter().position(|a| a == "--one").and_then(|i| args.get(i + 1)).and_then(|x| x.parse().ok());
    let clip = std::env::var("VX_CLI").unwrap_or_default();
    if which != "schema" && which != "operation" {
        eprintln!("usage: valueverdict <schema|operation> <quick|thorough> [--one <index>]");
        std::process::exit(2);
    }
    let cases = cases(&which, thorough);
    let tmp = std::env::temp_dir().join(format!("vx-valueverdict-{}", std::process::id()));
    let results = cli::par_map(cases.len(), &tmp, |i, dir| {
        if let Some(o) = only {
            if o != i {
                return None;
            }
        }
        let c = &cases[i];
        let mut files = vec![("schema/s.graphql".to_string(), c.schema.clone())];
        let config = match &c.operation {
            Some(op) => {
                files.push(("ops/q.graphql".to_string(), op.clone()));
                "schema: ./schema/*.graphql\ndocuments: ./ops/*.graphql\n"
            }
            None => "schema: ./schema/*.graphql\n",
        };
        files.push(("graphql.config.yaml".to_string(), config.to_string()));
        Some(cli::run(&clip, dir, &files, "check"))
    });
    let _ = std::fs::remove_dir_all(&tmp);
    let mut failures = vec![];
    let mut per_family: BTreeMap<String, usize> = BTreeMap::new();
    let mut evaluations = 0;
    let mut agree = (0usize, 0usize);
    for (i, (c, out)) in cases.iter().zip(results.iter()).enumerate() {
        let Some(out) = out else { continue };
        evaluations += 1;
        *per_family.entry(c.family.to_string()).or_default() += 1;
        let input = format!("[{}: {}]\n--- schema\n{}{}", c.family, c.label, c.schema, c.operation.as_ref().map(|o| format!("--- operation\n{o}")).unwrap_or_default());
        if out.timed_out {
            failures.push((i, format!("{}: check does not terminate within 20 s", c.family), input, c.why.clone(), String::new()));
            continue;
        }
        if out.panicked() || out.stderr.starts_with("harness:") {
            failures.push((i, format!("{}: check panics", c.family), input, c.why.clone(), out.stderr.chars().take(500).collect()));
            continue;
        }
        let accepted = out.check_passed();
        if accepted == c.expect_valid {
            if accepted { agree.0 += 1 } else { agree.1 += 1 }
            continue;
        }
        let msg: String = out.stderr.lines().filter(|l| !l.trim().is_empty()).take(6).collect::<Vec<_>>().join("\n").chars().take(500).collect();
        // one signature per (place, direction, shape of the declared type): a defect shows as few groups, each replayable
        let declared = c.label.rsplit("where x: ").next().unwrap_or("");
        let shape = format!("{}T{}", declared.chars().take_while(|ch| *ch == '[').collect::<String>(), declared.chars().skip_while(|ch| *ch == '[' || ch.is_alphabetic()).collect::<String>());
        let sig = if accepted { format!("{}: an ill-typed literal is accepted (declared type shape {shape})", c.family) } else { format!("{}: a well-typed literal is rejected (declared type shape {shape})", c.family) };
        failures.push((i, sig, input, format!("expected {}: {}", if c.expect_valid { "accepted" } else { "rejected" }, c.why), msg));
    }
    per_family.insert("agreed: accepted".into(), agree.0);
    per_family.insert("agreed: rejected".into(), agree.1);
    let samples: Vec<String> = cases.iter().enumerate().filter(|(i, _)| i % (cases.len() / 8).max(1) == 1).take(8).map(|(i, c)| format!("[#{i} {}: {}] expect {}", c.family, c.label, if c.expect_valid { "accepted" } else { "rejected" })).collect();
    cli::report(evaluations, per_family, samples, failures);
}
