//! BOUNDED stand-in (not a proof) for the first sentence of property C16 end to end: the module written to
//! `generate.serverGraphqlOutput` exports a template literal whose evaluated value is SDL that parses and denotes the
//! checked schema after extension merging, minus nitrogql-only directives.  Functions involved that no contract reaches:
//! crates/cli/src/builtins.rs remove_builtins, crates/plugin/src/model_plugin transform_document_for_runtime_server,
//! the driver in crates/cli/src/generate.rs, the GraphQLPrinter impls (also checked by gqlrt) - JsStringWriter and
//! print_string ARE proved (units jsstring, gqlstring).
//! The real `nitrogql generate` is run on every project of a stated finite family; the emitted module's template
//! literal is evaluated by an independent reader of JavaScript template-literal escapes, parsed with the real parser and
//! compared, as a multiset of definitions up to positions, with the expected merged schema written out by the generator.
//! usage: serverschema <quick|thorough> [--one <index>]     env: VX_CLI
use std::collections::BTreeMap;

use nitrogql_ast::type_system::TypeSystemDefinitionOrExtension;
use nitrogql_parser::parse_type_system_document;
use vx_bounded::cli;

fn erase_pos(s: &str) -> String {
    let mut out = String::with_capacity(s.len());
    let mut rest = s;
    while let Some(i) = rest.find("Pos {") {
        out.push_str(&rest[..i]);
        out.push('_');
        match rest[i..].find('}') {
            Some(j) => rest = &rest[i + j + 1..],
            None => rest = "",
        }
    }
    out.push_str(rest);
    out
}
/// cooked value of the template literal's body; Err = the literal ends early, starts a substitution or uses another escape
fn eval_template(body: &str) -> Result<String, String> {
    let c: Vec<char> = body.chars().collect();
    let mut out = String::new();
    let mut i = 0;
    while i < c.len() {
        match c[i] {
            '`' => return Err(format!("unescaped backtick at offset {i}: the literal ends early")),
            '$' if i + 1 < c.len() && c[i + 1] == '{' => return Err(format!("unescaped `${{` at offset {i}: a substitution starts")),
            '\\' => {
                if i + 1 >= c.len() {
                    return Err("dangling backslash".into());
                }
                match c[i + 1] {
                    '\\' | '`' | '$' | '{' => out.push(c[i + 1]),
                    other => return Err(format!("escape \\{other} at offset {i} is not one the writer is meant to produce")),
                }
                i += 2;
                continue;
            }
            '\r' => return Err("carriage return inside the template literal".into()),
            ch => out.push(ch),
        }
        i += 1;
    }
    Ok(out)
}
const BUILTIN_NAMES: [&str; 9] = ["Int", "Float", "String", "Boolean", "ID", "skip", "include", "deprecated", "specifiedBy"];
fn defs_of(text: &str, drop_builtins: bool) -> Result<Vec<String>, String> {
    let doc = parse_type_system_document(text).map_err(|e| format!("{e:?}").chars().take(300).collect::<String>())?;
    let mut v = vec![];
    for d in &doc.definitions {
        let (name, s) = match d {
            TypeSystemDefinitionOrExtension::SchemaDefinition(x) => (String::new(), erase_pos(&format!("{x:?}"))),
            TypeSystemDefinitionOrExtension::TypeDefinition(x) => (x.name().name.to_string(), erase_pos(&format!("{x:?}"))),
            TypeSystemDefinitionOrExtension::DirectiveDefinition(x) => (x.name.name.to_string(), erase_pos(&format!("{x:?}"))),
            TypeSystemDefinitionOrExtension::SchemaExtension(x) => (String::new(), format!("EXTENSION {}", erase_pos(&format!("{x:?}")))),
            TypeSystemDefinitionOrExtension::TypeExtension(x) => (String::new(), format!("EXTENSION {}", erase_pos(&format!("{x:?}")))),
        };
        if drop_builtins && BUILTIN_NAMES.contains(&name.as_str()) {
            continue;
        }
        v.push(s);
    }
    v.sort();
    Ok(v)
}

struct Case {
    label: String,
    plugin: bool,
    files: Vec<String>,
    expected: String,
}

/// directive lists with the nitrogql-only directive at every place among two ordinary ones
fn placements(special: &str) -> Vec<(String, String)> {
    let a = "@tag(name: \"x\")";
    let b = "@mark(n: 1)";
    vec![
        (format!(" {special}"), String::new()),
        (format!(" {special} {a}"), format!(" {a}")),
        (format!(" {a} {special}"), format!(" {a}")),
        (format!(" {a} {special} {b}"), format!(" {a} {b}")),
        (format!(" {special} {a} {b}"), format!(" {a} {b}")),
        (format!(" {special} {b} {a} {b}"), format!(" {b} {a} {b}")),
        (format!(" {a} {special} {b} {a} {a}"), format!(" {a} {b} {a} {a}")),
        (format!(" {a} {b}"), format!(" {a} {b}")),
        (String::new(), String::new()),
    ]
}

fn cases(thorough: bool) -> Vec<Case> {
    let mut v = vec![];
    let prelude = "directive @tag(name: String) repeatable on OBJECT | FIELD_DEFINITION | SCALAR | ENUM | ENUM_VALUE | INPUT_OBJECT | INPUT_FIELD_DEFINITION | UNION | INTERFACE | ARGUMENT_DEFINITION | SCHEMA\ndirective @mark(n: Int) repeatable on OBJECT | FIELD_DEFINITION | SCALAR | ENUM | INTERFACE\n";
    let ts = "@nitrogql_ts_type(resolverInput: \"string\", resolverOutput: \"string\", operationInput: \"string\", operationOutput: \"string\")";
    // 1. @nitrogql_ts_type on a scalar at every place among other directives; scalar extended or not
    for (with, without) in placements(ts) {
        if !with.contains("nitrogql_ts_type") {
            continue;
        }
        for extended in [false, true] {
            let (src, exp) = if extended {
                (format!("{prelude}type Query {{ d: Date }}\nscalar Date @tag(name: \"base\")\nextend scalar Date{with}\n"), format!("{prelude}type Query {{ d: Date }}\nscalar Date @tag(name: \"base\"){without}\n"))
            } else {
                (format!("{prelude}type Query {{ d: Date }}\nscalar Date{with}\n"), format!("{prelude}type Query {{ d: Date }}\nscalar Date{without}\n"))
            };
            v.push(Case { label: format!("scalar with{with}{}", if extended { " (through an extension)" } else { "" }), plugin: false, files: vec![src], expected: exp });
        }
    }
    // 2. @model (plugin) on objects and fields at every place; on several fields; next to types that must keep theirs
    let model_def_gone = prelude.to_string();
    // (the plugin's own rules: on an object `@model(type: ..)`, on fields a bare `@model`, never both on one object)
    for (with, without) in placements("@model(type: \"string\")") {
        for (fwith, fwithout) in placements("@model") {
            if !thorough && (with.len() + fwith.len()) % 2 == 1 {
                continue;
            }
            let src = format!("{prelude}type Query {{ u: User p: Post }}\ntype User{with} {{ id: ID! other: Int @tag(name: \"keep\") }}\ntype Post @tag(name: \"p\") {{ id: ID!{fwith} title: String{fwith} plain: Int @mark(n: 2) }}\ninterface Node @tag(name: \"i\") {{ id: ID @deprecated }}\n");
            let exp = format!("{model_def_gone}type Query {{ u: User p: Post }}\ntype User{without} {{ id: ID! other: Int @tag(name: \"keep\") }}\ntype Post @tag(name: \"p\") {{ id: ID!{fwithout} title: String{fwithout} plain: Int @mark(n: 2) }}\ninterface Node @tag(name: \"i\") {{ id: ID @deprecated }}\n");
            v.push(Case { label: format!("model plugin: type User{with}, fields of Post{fwith}"), plugin: true, files: vec![src], expected: exp });
        }
    }
    // 3. extension merging of every kind, across two files, with descriptions that stress the template-literal layer
    let desc_block = "\"\"\"\nback`tick ${not} a \\ slash $ { } `` $${x}\nsecond line\n\"\"\"\n";
    let f0 = format!(
        "{prelude}{desc_block}type Query @tag(name: \"q\") {{ a: Int }}\n\"plain doc\" enum Color {{ RED }}\nunion U = Query\nunion Five = Query | M | T1 | T2 | T3\ntype T1 {{ a: Int }}\ntype T2 {{ a: Int }}\ntype T3 {{ a: Int }}\ntype T4 {{ a: Int }}\ninput In {{ a: Int = 1 }}\ninterface Node {{ id: ID }}\ninterface Res {{ id: ID extra: Int }}\nscalar Date @tag(name: \"s\") {ts}\nschema @tag(name: \"sch\") {{ query: Query }}\ntype M {{ m: Int }}\n"
    );
    let f1 = "extend type Query implements Node @tag(name: \"q2\") { id: ID extra: Int b(x: In = {a: 2}, l: [Color!] = [RED]): U @deprecated }\nextend enum Color @tag(name: \"e\") { GREEN @tag(name: \"v\") }\nextend union U @tag(name: \"u\") = M\nextend union Five = T4\nextend input In { b: [In!] c: String = \"s\" }\nextend interface Node @tag(name: \"n\") { extra: Int }\nextend interface Res implements Node @tag(name: \"r\") { more: Int }\nextend scalar Date @tag(name: \"s2\")\nextend schema { mutation: M }\n".to_string();
    let expected = format!(
        "{prelude}{desc_block}type Query implements Node @tag(name: \"q\") @tag(name: \"q2\") {{ a: Int id: ID extra: Int b(x: In = {{a: 2}}, l: [Color!] = [RED]): U @deprecated }}\n\"plain doc\" enum Color @tag(name: \"e\") {{ RED GREEN @tag(name: \"v\") }}\nunion U @tag(name: \"u\") = Query | M\nunion Five = Query | M | T1 | T2 | T3 | T4\ntype T1 {{ a: Int }}\ntype T2 {{ a: Int }}\ntype T3 {{ a: Int }}\ntype T4 {{ a: Int }}\ninput In {{ a: Int = 1 b: [In!] c: String = \"s\" }}\ninterface Node @tag(name: \"n\") {{ id: ID extra: Int }}\ninterface Res implements Node @tag(name: \"r\") {{ id: ID extra: Int more: Int }}\nscalar Date @tag(name: \"s\") @tag(name: \"s2\")\nschema @tag(name: \"sch\") {{ query: Query mutation: M }}\ntype M {{ m: Int }}\n"
    );
    v.push(Case { label: "all kinds extended, two files, extensions after the definitions".into(), plugin: false, files: vec![f0.clone(), f1.clone()], expected: expected.clone() });
    v.push(Case { label: "all kinds extended, two files, extensions first".into(), plugin: false, files: vec![f1.clone(), f0.clone()], expected: expected.clone() });
    v.push(Case { label: "all kinds extended, one file".into(), plugin: false, files: vec![format!("{f0}{f1}")], expected: expected.clone() });
    v.push(Case { label: "all kinds extended, model plugin enabled but unused".into(), plugin: true, files: vec![f0, f1], expected });
    // 4. top-level descriptions with characters the JavaScript layer must escape (one-line forms without quote / backslash,
    //    block forms at column 0: the string-literal layer's own known findings are out of this family)
    for d in ["\"back`tick\"", "\"dollar ${brace}\"", "\"$ { split $\"", "\"\"\"\nblock ` ${a} \\\\ \\n literal\nline2\n\"\"\"", "\"\"\"\n$\n{\n`\n\\\n\"\"\"", "\"unicode \u{e9}\u{1F600}\"", "\"\"\"\n\\${HOME} \\\\${x} \\\\\\${y} \\` \\\\` $\\{z}\n\"\"\""] {
        let src = format!("{prelude}{d}\ntype Query {{ a: Int }}\n{d}\nscalar S {ts}\n{d}\ndirective @own on FIELD\n");
        let exp = format!("{prelude}{d}\ntype Query {{ a: Int }}\n{d}\nscalar S\n{d}\ndirective @own on FIELD\n");
        v.push(Case { label: format!("descriptions {}", d.chars().take(30).collect::<String>().replace('\n', "\\n")), plugin: false, files: vec![src], expected: exp });
    }
    v
}

fn main() {
    let args: Vec<String> = std::env::args().collect();
    let thorough = args.get(1).map(|a| a == "thorough").unwrap_or(false);
    let only: Option<usize> = args.iter().position(|a| a == "--one").and_then(|i| args.get(i + 1)).and_then(|x| x.parse().ok());
    let clip = std::env::var("VX_CLI").unwrap_or_default();
    let cases = cases(thorough);
    let tmp = std::env::temp_dir().join(format!("vx-serverschema-{}", std::process::id()));
    let results = cli::par_map(cases.len(), &tmp, |i, dir| {
        if let Some(o) = only {
            if o != i {
                return None;
            }
        }
        let c = &cases[i];
        let config = format!(
            "schema: ./schema/*.graphql\nextensions:\n  nitrogql:\n{}    generate:\n      schemaOutput: ./out/schema.d.ts\n      serverGraphqlOutput: ./out/server.ts\n      type:\n        scalarTypes:\n          Date: string\n          S: string\n",
            if c.plugin { "    plugins:\n      - \"nitrogql:model-plugin\"\n" } else { "" }
        );
        let mut files = vec![("graphql.config.yaml".to_string(), config), ("out/.keep".to_string(), String::new())];
        for (k, f) in c.files.iter().enumerate() {
            files.push((format!("schema/f{k}.graphql"), f.clone()));
        }
        let out = cli::run(&clip, dir, &files, "generate");
        let module = std::fs::read_to_string(dir.join("out/server.ts")).ok();
        Some((out, module))
    });
    let _ = std::fs::remove_dir_all(&tmp);
    let mut failures = vec![];
    let mut per_family: BTreeMap<String, usize> = BTreeMap::new();
    let mut evaluations = 0;
    for (i, (c, r)) in cases.iter().zip(results.iter()).enumerate() {
        let Some((out, module)) = r else { continue };
        evaluations += 1;
        let input = format!("[{}]\n{}", c.label, c.files.iter().enumerate().map(|(k, f)| format!("--- schema/f{k}.graphql\n{f}")).collect::<String>());
        let mut fail = |sig: &str, why: String, got: String| failures.push((i, sig.to_string(), input.clone(), why, got));
        if out.timed_out || out.panicked() || out.stderr.starts_with("harness:") {
            fail("generate panics or does not terminate", String::new(), out.stderr.chars().take(500).collect());
            continue;
        }
        if !out.stderr.contains("'generate' finished") {
            fail("generate fails on a valid project", String::new(), out.stderr.chars().take(600).collect());
            continue;
        }
        let Some(module) = module else {
            fail("no server schema module written", String::new(), String::new());
            continue;
        };
        let (Some(a), Some(b)) = (module.find('`'), module.rfind('`')) else {
            fail("the module contains no template literal", String::new(), module.chars().take(300).collect());
            continue;
        };
        if !module[..a].trim_end().ends_with("export const schema =") || module[b + 1..].trim() != ";" {
            fail("the module is not `export const schema = <template literal>;`", String::new(), format!("{} ... {}", module[..a].chars().take(120).collect::<String>(), module[b..].chars().take(40).collect::<String>()));
            continue;
        }
        let sdl = match eval_template(&module[a + 1..b]) {
            Ok(s) => s,
            Err(e) => {
                fail(&format!("the template literal does not evaluate: {}", e.split(" at offset").next().unwrap_or(&e)), e.clone(), module.chars().take(900).collect());
                continue;
            }
        };
        let got = match defs_of(&sdl, true) {
            Ok(g) => g,
            Err(e) => {
                fail("the evaluated SDL does not parse", e, sdl.chars().take(900).collect());
                continue;
            }
        };
        let exp = match defs_of(&c.expected, true) {
            Ok(g) => g,
            Err(e) => {
                fail("generator: the expected SDL does not parse", e, c.expected.clone());
                continue;
            }
        };
        if got != exp {
            let surviving: Vec<&str> = ["nitrogql_ts_type", "\"model\""].into_iter().filter(|n| got.iter().any(|g| g.contains(n))).collect();
            let sig = if !surviving.is_empty() {
                format!("a nitrogql-only directive survives in the server schema: {}", surviving.join(", ").replace('"', ""))
            } else if got.len() != exp.len() {
                "the server schema has a different number of definitions than the merged schema".to_string()
            } else {
                let site = exp.iter().zip(got.iter()).find(|(a, b)| a != b).map(|(a, b)| {
                    let n = a.bytes().zip(b.bytes()).take_while(|(x, y)| x == y).count();
                    let mut n = n.min(a.len());
                    while !a.is_char_boundary(n) { n -= 1; }
                    let head = &a[..n];
                    head.rfind(": ").map(|k| { let h = &head[..k]; let st = h.rfind(|c: char| !(c.is_alphanumeric() || c == '_')).map(|q| q + 1).unwrap_or(0); h[st..].to_string() }).unwrap_or_default()
                }).unwrap_or_default();
                format!("a definition of the server schema differs from the merged schema at {site}")
            };
            fail(&sig, format!("expected (as SDL): {}", c.expected), sdl.chars().take(1200).collect());
        } else {
            *per_family.entry("agreed".into()).or_default() += 1;
        }
    }
    per_family.insert("projects".into(), evaluations);
    let samples: Vec<String> = cases.iter().enumerate().filter(|(i, _)| i % (cases.len() / 6).max(1) == 1).take(6).map(|(i, c)| format!("[#{i}] {}", c.label)).collect();
    cli::report(evaluations, per_family, samples, failures);
}
