//! BOUNDED stand-in (not a proof) for properties C01 / C02 on the parts of the operation result-type printer that are
//! not under contract: crates/printer/src/operation_type_printer/type_printer.rs (get_object_type_for_selection_set and
//! its helpers: branching on @skip / @include variables, fragment type conditions, merging of selection sets) and
//! selection_set_visitor.rs.  (map_to_tstype, check_skip_directive, check_fragment_condition, merge_fields ARE proved:
//! units treewrap, skipdir, fragcond, mergefields.)
//! For every operation of a stated family the real `nitrogql generate` is run and the emitted `QResult` type is read by
//! an independent reader of the TypeScript subset the printer uses; an independent miniature GraphQL executor
//! enumerates the set R of responses the operation can produce over a small data universe and every assignment of its
//! Boolean variables.  C01: every response in R is a member of the type.  C02: every single structural mutation of a
//! response in R (a value replaced by null, a key removed, a key added from another response, a __typename changed) that
//! is not itself in R is NOT a member of the type.
//! usage: optype <quick|thorough> [--one <index>]     env: VX_CLI
use std::collections::{BTreeMap, BTreeSet};

use vx_bounded::cli;

// ------------------------------------------------------------------------------------------------ schema (fixed)
const SCHEMA: &str = "type Query { n: Int! m: Int user: User users: [User!] maybe: [User]! thing: Thing things: [Thing!]! node: Node deep: [[Int!]]! entity: Entity entities: [Entity!]! }\n\
interface Node { id: ID! }\n\
type User implements Node { id: ID! name: String friend: User posts: [Post!]! }\n\
type Post implements Node { id: ID! title: String author: User! }\n\
union Thing = User | Post\n\
interface Entity implements Node { id: ID! label: String }\ntype Org implements Entity & Node { id: ID! label: String }\ntype Tag implements Node { id: ID! }\n";

#[derive(Clone, Debug, PartialEq)]
enum GTy {
    Named(&'static str),
    List(Box<GTy>),
    NonNull(Box<GTy>),
}
fn n(x: &'static str) -> GTy {
    GTy::Named(x)
}
fn l(x: GTy) -> GTy {
    GTy::List(Box::new(x))
}
fn nn(x: GTy) -> GTy {
    GTy::NonNull(Box::new(x))
}
fn field_type(parent: &str, field: &str) -> Option<GTy> {
    Some(match (parent, field) {
        ("Query", "n") => nn(n("Int")),
        ("Query", "m") => n("Int"),
        ("Query", "user") => n("User"),
        ("Query", "users") => l(nn(n("User"))),
        ("Query", "maybe") => nn(l(n("User"))),
        ("Query", "thing") => n("Thing"),
        ("Query", "things") => nn(l(nn(n("Thing")))),
        ("Query", "node") => n("Node"),
        ("Query", "deep") => nn(l(l(nn(n("Int"))))),
        ("Query", "entity") => n("Entity"),
        ("Query", "entities") => nn(l(nn(n("Entity")))),
        ("Node" | "User" | "Post" | "Entity" | "Org" | "Tag", "id") => nn(n("ID")),
        ("Entity" | "Org", "label") => n("String"),
        ("User", "name") => n("String"),
        ("User", "friend") => n("User"),
        ("User", "posts") => nn(l(nn(n("Post")))),
        ("Post", "title") => n("String"),
        ("Post", "author") => nn(n("User")),
        _ => return None,
    })
}
fn possible_types(t: &str) -> Vec<&'static str> {
    match t {
        "User" => vec!["User"],
        "Post" => vec!["Post"],
        "Query" => vec!["Query"],
        "Org" => vec!["Org"],
        "Tag" => vec!["Tag"],
        "Entity" => vec!["Org"],
        "Node" => vec!["User", "Post", "Org", "Tag"],
        "Thing" => vec!["User", "Post"],
        _ => vec![],
    }
}
fn applies(cond: &str, concrete: &str) -> bool {
    cond == concrete || possible_types(cond).contains(&concrete)
}

// ------------------------------------------------------------------------------------------------ operations (model)
#[derive(Clone, Debug)]
enum Cond {
    Lit(bool),
    Var(&'static str),
}
#[derive(Clone, Debug, Default)]
struct Dirs {
    skip: Option<Cond>,
    include: Option<Cond>,
}
#[derive(Clone, Debug)]
enum Sel {
    Field { alias: Option<&'static str>, name: &'static str, dirs: Dirs, sel: Vec<Sel> },
    Inline { cond: Option<&'static str>, dirs: Dirs, sel: Vec<Sel> },
    Spread { name: &'static str, dirs: Dirs },
}
#[derive(Clone, Debug)]
struct Op {
    vars: Vec<&'static str>,
    sel: Vec<Sel>,
    frags: Vec<(&'static str, &'static str, Vec<Sel>)>,
}
fn show_cond(c: &Cond) -> String {
    match c {
        Cond::Lit(b) => b.to_string(),
        Cond::Var(v) => format!("${v}"),
    }
}
fn show_dirs(d: &Dirs) -> String {
    format!("{}{}", d.skip.as_ref().map(|c| format!(" @skip(if: {})", show_cond(c))).unwrap_or_default(), d.include.as_ref().map(|c| format!(" @include(if: {})", show_cond(c))).unwrap_or_default())
}
fn show_sels(s: &[Sel]) -> String {
    if s.is_empty() { String::new() } else { format!(" {{ {} }}", s.iter().map(show_sel).collect::<Vec<_>>().join(" ")) }
}
fn show_sel(s: &Sel) -> String {
    match s {
        Sel::Field { alias, name, dirs, sel } => format!("{}{name}{}{}", alias.map(|a| format!("{a}: ")).unwrap_or_default(), show_dirs(dirs), show_sels(sel)),
        Sel::Inline { cond, dirs, sel } => format!("...{}{}{}", cond.map(|c| format!(" on {c}")).unwrap_or_default(), show_dirs(dirs), show_sels(sel)),
        Sel::Spread { name, dirs } => format!("...{name}{}", show_dirs(dirs)),
    }
}
fn show_op(o: &Op) -> String {
    let vars = if o.vars.is_empty() { String::new() } else { format!("({})", o.vars.iter().map(|v| format!("${v}: Boolean!")).collect::<Vec<_>>().join(", ")) };
    let mut s = format!("query Q{vars}{}\n", show_sels(&o.sel));
    for (name, cond, sel) in &o.frags {
        s += &format!("fragment {name} on {cond}{}\n", show_sels(sel));
    }
    s
}

// ------------------------------------------------------------------------------------------------ values and the executor
#[derive(Clone, Debug, PartialEq, Eq, PartialOrd, Ord)]
enum Val {
    Null,
    Scalar(&'static str),
    Str(String),
    List(Vec<Val>),
    Obj(BTreeMap<String, Val>),
}
fn included(d: &Dirs, vars: &BTreeMap<&str, bool>) -> bool {
    let ev = |c: &Cond| match c {
        Cond::Lit(b) => *b,
        Cond::Var(v) => vars[v],
    };
    !d.skip.as_ref().map(ev).unwrap_or(false) && d.include.as_ref().map(ev).unwrap_or(true)
}
/// CollectFields: response key -> (field name, merged sub-selections), in first-appearance order
fn collect(op: &Op, concrete: &str, sels: &[Sel], vars: &BTreeMap<&str, bool>, out: &mut Vec<(String, &'static str, Vec<Sel>)>) {
    for s in sels {
        match s {
            Sel::Field { alias, name, dirs, sel } => {
                if !included(dirs, vars) {
                    continue;
                }
                let key = alias.unwrap_or(name).to_string();
                match out.iter_mut().find(|(k, _, _)| *k == key) {
                    Some((_, _, subs)) => subs.extend(sel.clone()),
                    None => out.push((key, name, sel.clone())),
                }
            }
            Sel::Inline { cond, dirs, sel } => {
                if included(dirs, vars) && cond.map(|c| applies(c, concrete)).unwrap_or(true) {
                    collect(op, concrete, sel, vars, out);
                }
            }
            Sel::Spread { name, dirs } => {
                if !included(dirs, vars) {
                    continue;
                }
                if let Some((_, cond, sel)) = op.frags.iter().find(|(n, _, _)| n == name) {
                    if applies(cond, concrete) {
                        collect(op, concrete, sel, vars, out);
                    }
                }
            }
        }
    }
}
/// every value a field of type `t` with sub-selections `sel` can complete to, over the small data universe
/// (nullable: null or a value; lists: empty, or one element, each possible element once)
fn complete(op: &Op, t: &GTy, sel: &[Sel], vars: &BTreeMap<&str, bool>, depth: usize) -> Vec<Val> {
    match t {
        GTy::NonNull(i) => complete(op, i, sel, vars, depth).into_iter().filter(|v| *v != Val::Null).collect(),
        GTy::List(i) => {
            let elems = complete(op, i, sel, vars, depth);
            let mut out = vec![Val::Null, Val::List(vec![])];
            for e in elems.iter().take(4) {
                out.push(Val::List(vec![e.clone()]));
            }
            if elems.len() >= 2 {
                out.push(Val::List(vec![elems[0].clone(), elems[elems.len() - 1].clone()]));
            }
            out
        }
        GTy::Named(name) => {
            let mut out = vec![Val::Null];
            match *name {
                "Int" | "String" | "ID" | "Boolean" | "Float" => out.push(Val::Scalar(name)),
                _ => {
                    for c in possible_types(name) {
                        out.extend(exec_object(op, c, sel, vars, depth + 1));
                    }
                }
            }
            out
        }
    }
}
fn exec_object(op: &Op, concrete: &'static str, sels: &[Sel], vars: &BTreeMap<&str, bool>, depth: usize) -> Vec<Val> {
    let mut fields = vec![];
    collect(op, concrete, sels, vars, &mut fields);
    let mut results: Vec<BTreeMap<String, Val>> = vec![BTreeMap::new()];
    for (key, name, sub) in fields {
        let vals: Vec<Val> = if name == "__typename" {
            vec![Val::Str(concrete.to_string())]
        } else {
            let t = field_type(concrete, name).unwrap_or_else(|| panic!("generator: {concrete}.{name} does not exist"));
            let mut v = complete(op, &t, &sub, vars, depth);
            // keep the product small: at most 3 alternatives per field below the top level
            if depth >= 1 && v.len() > 3 {
                let last = v[v.len() - 1].clone();
                v.truncate(2);
                v.push(last);
            }
            v
        };
        let mut next = vec![];
        for r in &results {
            for v in &vals {
                let mut r2 = r.clone();
                r2.insert(key.clone(), v.clone());
                next.push(r2);
                if next.len() > 4000 {
                    break;
                }
            }
        }
        results = next;
    }
    results.into_iter().map(Val::Obj).collect()
}
fn responses(op: &Op, concretes: &[&'static str], sels: &[Sel]) -> BTreeSet<Val> {
    let mut all = BTreeSet::new();
    let nv = op.vars.len();
    for mask in 0..(1usize << nv) {
        let vars: BTreeMap<&str, bool> = op.vars.iter().enumerate().map(|(i, v)| (*v, mask & (1 << i) != 0)).collect();
        for c in concretes {
            all.extend(exec_object(op, c, sels, &vars, 0));
        }
    }
    all
}

/// Is `v` in Ref_local of the operation (decided directly, not by enumeration)?  As the property states it, each
/// selection set is considered on its own: some runtime object type and some values of the boolean variables - chosen
/// per selection set, NOT one assignment for the whole response.  Keys that the selection set can never produce for the
/// object's concrete type are ignored: TypeScript object types are open, so no printed type can exclude them; keys it
/// CAN produce (under some variable assignment) must be exactly those of the assignment chosen for that selection set.
fn conforms(op: &Op, v: &Val, concretes: &[&'static str], sels: &[Sel]) -> bool {
    concretes.iter().any(|c| conf_obj(op, v, c, sels))
}
fn key_universe(op: &Op, concrete: &str, sels: &[Sel]) -> BTreeSet<String> {
    let nv = op.vars.len();
    let mut u = BTreeSet::new();
    for mask in 0..(1usize << nv) {
        let vars: BTreeMap<&str, bool> = op.vars.iter().enumerate().map(|(i, x)| (*x, mask & (1 << i) != 0)).collect();
        let mut f = vec![];
        collect(op, concrete, sels, &vars, &mut f);
        u.extend(f.into_iter().map(|(k, _, _)| k));
    }
    u
}
fn conf_obj(op: &Op, v: &Val, concrete: &'static str, sels: &[Sel]) -> bool {
    let Val::Obj(o) = v else { return false };
    let universe = key_universe(op, concrete, sels);
    let present: BTreeSet<String> = o.keys().filter(|k| universe.contains(*k)).cloned().collect();
    let nv = op.vars.len();
    (0..(1usize << nv)).any(|mask| {
        let vars: BTreeMap<&str, bool> = op.vars.iter().enumerate().map(|(i, x)| (*x, mask & (1 << i) != 0)).collect();
        let mut fields = vec![];
        collect(op, concrete, sels, &vars, &mut fields);
        let expected: BTreeSet<String> = fields.iter().map(|(k, _, _)| k.clone()).collect();
        expected == present
            && fields.iter().all(|(key, name, sub)| {
                let x = &o[key];
                if *name == "__typename" {
                    *x == Val::Str(concrete.to_string())
                } else {
                    conf_val(op, x, &field_type(concrete, name).unwrap(), sub)
                }
            })
    })
}
fn conf_val(op: &Op, v: &Val, t: &GTy, sub: &[Sel]) -> bool {
    match t {
        GTy::NonNull(i) => *v != Val::Null && conf_val(op, v, i, sub),
        GTy::List(i) => match v {
            Val::Null => true,
            Val::List(xs) => xs.iter().all(|x| conf_val(op, x, i, sub)),
            _ => false,
        },
        GTy::Named(name) => match (*name, v) {
            (_, Val::Null) => true,
            ("Int" | "String" | "ID" | "Boolean" | "Float", Val::Scalar(k)) => k == name,
            ("Int" | "String" | "ID" | "Boolean" | "Float", _) => false,
            (composite, v) => possible_types(composite).into_iter().any(|c| conf_obj(op, v, c, sub)),
        },
    }
}

// ------------------------------------------------------------------------------------------------ TypeScript subset reader
#[derive(Clone, Debug)]
enum Ts {
    Null,
    Never,
    Scalar(String),
    Lit(String),
    Array(Box<Ts>),
    Union(Vec<Ts>),
    Obj { req: Vec<(String, Ts)>, never: Vec<String> },
}
struct P<'a> {
    c: Vec<char>,
    i: usize,
    _s: &'a str,
    /// keys of every object type declared in the schema declaration's __OperationOutput namespace
    decl: &'a BTreeMap<String, BTreeSet<String>>,
}
impl<'a> P<'a> {
    fn ws(&mut self) {
        while self.i < self.c.len() && self.c[self.i].is_whitespace() {
            self.i += 1;
        }
    }
    fn eat(&mut self, t: &str) -> bool {
        self.ws();
        let tc: Vec<char> = t.chars().collect();
        if self.c[self.i..].starts_with(&tc) {
            self.i += tc.len();
            true
        } else {
            false
        }
    }
    fn ident(&mut self) -> String {
        self.ws();
        let st = self.i;
        while self.i < self.c.len() && (self.c[self.i].is_alphanumeric() || self.c[self.i] == '_' || self.c[self.i] == '.') {
            self.i += 1;
        }
        self.c[st..self.i].iter().collect()
    }
    fn union(&mut self) -> Result<Ts, String> {
        let mut v = vec![self.postfix()?];
        while self.eat("|") {
            v.push(self.postfix()?);
        }
        Ok(if v.len() == 1 { v.pop().unwrap() } else { Ts::Union(v) })
    }
    fn postfix(&mut self) -> Result<Ts, String> {
        let mut t = self.primary()?;
        while self.eat("[]") {
            t = Ts::Array(Box::new(t));
        }
        Ok(t)
    }
    fn obj(&mut self) -> Result<(Vec<(String, Ts)>, Vec<String>), String> {
        if !self.eat("{") {
            return Err(format!("expected `{{` at {}", self.i));
        }
        let (mut req, mut never) = (vec![], vec![]);
        loop {
            if self.eat("}") {
                break;
            }
            let key = self.ident();
            if key.is_empty() {
                return Err(format!("expected a property name at {}", self.i));
            }
            let optional = self.eat("?");
            if !self.eat(":") {
                return Err(format!("expected `:` after {key}"));
            }
            let t = self.union()?;
            if !self.eat(";") {
                return Err(format!("expected `;` after property {key}"));
            }
            match (optional, &t) {
                (true, Ts::Never) => never.push(key),
                (false, _) => req.push((key, t)),
                (true, _) => return Err(format!("optional property {key} of a type other than never")),
            }
        }
        Ok((req, never))
    }
    fn primary(&mut self) -> Result<Ts, String> {
        self.ws();
        if self.eat("(") {
            let t = self.union()?;
            if !self.eat(")") {
                return Err(format!("expected `)` at {}", self.i));
            }
            return Ok(t);
        }
        if self.eat("\"") {
            let st = self.i;
            while self.i < self.c.len() && self.c[self.i] != '"' {
                self.i += 1;
            }
            let s: String = self.c[st..self.i].iter().collect();
            self.i += 1;
            return Ok(Ts::Lit(s));
        }
        let id = self.ident();
        match id.as_str() {
            "null" => Ok(Ts::Null),
            "never" => Ok(Ts::Never),
            "Schema.__SelectionSet" => {
                if !self.eat("<") {
                    return Err("expected `<`".into());
                }
                // __SelectionSet<Orig, Obj, Others> = Pick<{[K in keyof Orig]: type of K in Obj}, Extract<keyof Orig, keyof Obj>> & Others
                // (the definition is compared with the one this reader interprets, see prelude_is_known): a key of Obj
                // that the declaration of Orig lacks is dropped by Extract - the type then says nothing about it
                let orig = self.ident();
                let Some(orig_keys) = orig.strip_prefix("Schema.__OperationOutput.").and_then(|n| self.decl.get(n)) else {
                    return Err(format!("__SelectionSet over {orig:?}, which is not an object type of the schema declaration's __OperationOutput namespace"));
                };
                if !self.eat(",") {
                    return Err("expected `,` after the original type".into());
                }
                let (mut req, mut never) = self.obj()?;
                req.retain(|(k, _)| orig_keys.contains(k));
                never.retain(|k| orig_keys.contains(k));
                if !self.eat(",") {
                    return Err("expected `,` after the selected fields".into());
                }
                let (r2, n2) = self.obj()?;
                req.extend(r2);
                never.extend(n2);
                if !self.eat(">") {
                    return Err("expected `>`".into());
                }
                Ok(Ts::Obj { req, never })
            }
            x if x.starts_with("Schema.__OperationOutput.") => Ok(Ts::Scalar(x["Schema.__OperationOutput.".len()..].to_string())),
            "" if self.i < self.c.len() && self.c[self.i] == '{' => {
                let (req, never) = self.obj()?;
                Ok(Ts::Obj { req, never })
            }
            other => Err(format!("unexpected token {other:?} at {}", self.i)),
        }
    }
}
/// the utility type as this reader interprets it (whitespace-insensitive comparison of its definition)
fn prelude_is_known(schema_ts: &str) -> bool {
    let squash = |s: &str| s.chars().filter(|c| !c.is_whitespace()).collect::<String>();
    let known = "type __Beautify<Obj> = { [K in keyof Obj]: Obj[K] } & {}; export type __SelectionSet<Orig, Obj, Others> = __Beautify<Pick<{ [K in keyof Orig]: Obj extends { [P in K]?: infer V } ? V : unknown }, Extract<keyof Orig, keyof Obj>> & Others>;";
    squash(schema_ts).contains(&squash(known))
}
/// object types declared in `export declare namespace __OperationOutput { .. }`: name -> declared keys
fn declared_objects(schema_ts: &str) -> Result<BTreeMap<String, BTreeSet<String>>, String> {
    let start = schema_ts.find("export declare namespace __OperationOutput {").ok_or("no __OperationOutput namespace")?;
    let body = &schema_ts[start..];
    let body = &body[..body.find("\n}\n").ok_or("unterminated namespace")?];
    let mut out = BTreeMap::new();
    let mut cur: Option<(String, BTreeSet<String>)> = None;
    for line in body.lines() {
        let l = line.trim();
        if let Some(rest) = l.strip_prefix("export type ") {
            if let Some((name, rhs)) = rest.split_once(" = ") {
                if rhs.trim() == "{" {
                    cur = Some((name.to_string(), BTreeSet::new()));
                }
            }
        } else if l == "};" {
            if let Some((n, k)) = cur.take() {
                out.insert(n, k);
            }
        } else if let Some((n, keys)) = cur.as_mut() {
            if l.starts_with("/**") || l.starts_with('*') || l.is_empty() {
                continue;
            }
            let (key, ty) = l.split_once(':').ok_or(format!("{n}: not a property: {l}"))?;
            let key = key.trim();
            if key.ends_with('?') {
                return Err(format!("{n}: optional property {key}"));
            }
            if key == "__typename" && ty.trim().trim_end_matches(';') != format!("\"{n}\"") {
                return Err(format!("{n}: __typename is declared as {ty}"));
            }
            keys.insert(key.to_string());
        }
    }
    Ok(out)
}
fn member(v: &Val, t: &Ts) -> bool {
    match (t, v) {
        (Ts::Union(ts), v) => ts.iter().any(|t| member(v, t)),
        (Ts::Null, Val::Null) => true,
        (Ts::Never, _) => false,
        (Ts::Scalar(n), Val::Scalar(k)) => n == k,
        (Ts::Lit(s), Val::Str(x)) => s == x,
        // a concrete string (a type name) is a value of the scalar alias String = string
        (Ts::Scalar(n), Val::Str(_)) => n == "String",
        (Ts::Array(e), Val::List(xs)) => xs.iter().all(|x| member(x, e)),
        (Ts::Obj { req, never }, Val::Obj(o)) => req.iter().all(|(k, t)| o.get(k).map(|x| member(x, t)).unwrap_or(false)) && never.iter().all(|k| !o.contains_key(k)),
        _ => false,
    }
}

// ------------------------------------------------------------------------------------------------ mutations (C02)
/// every value obtained from `v` by one structural change; `pool` maps a path (keys joined by '/') to the key/value pairs
/// seen there in some response, for the "add a key" mutation
fn mutations(v: &Val, path: &str, pool: &BTreeMap<String, BTreeSet<(String, Val)>>, out: &mut Vec<(String, Val)>, rebuild: &dyn Fn(Val) -> Val) {
    if *v != Val::Null {
        out.push((format!("{path}: replaced by null"), rebuild(Val::Null)));
    }
    match v {
        Val::Obj(o) => {
            for k in o.keys() {
                let mut o2 = o.clone();
                o2.remove(k);
                out.push((format!("{path}/{k}: key removed"), rebuild(Val::Obj(o2))));
            }
            if let Some(cands) = pool.get(path) {
                for (k, val) in cands {
                    if !o.contains_key(k) {
                        let mut o2 = o.clone();
                        o2.insert(k.clone(), val.clone());
                        out.push((format!("{path}/{k}: key added"), rebuild(Val::Obj(o2))));
                    }
                }
            }
            if let Some(Val::Str(tn)) = o.get("__typename") {
                for other in ["User", "Post"] {
                    if other != tn {
                        let mut o2 = o.clone();
                        o2.insert("__typename".into(), Val::Str(other.into()));
                        out.push((format!("{path}/__typename: changed to {other}"), rebuild(Val::Obj(o2))));
                    }
                }
            }
            for (k, val) in o {
                let o_ = o.clone();
                let k_ = k.clone();
                let rb = move |nv: Val| {
                    let mut o2 = o_.clone();
                    o2.insert(k_.clone(), nv);
                    rebuild(Val::Obj(o2))
                };
                mutations(val, &format!("{path}/{k}"), pool, out, &rb);
            }
        }
        Val::List(xs) => {
            for (i, x) in xs.iter().enumerate() {
                let xs_ = xs.clone();
                let rb = move |nv: Val| {
                    let mut x2 = xs_.clone();
                    x2[i] = nv;
                    rebuild(Val::List(x2))
                };
                mutations(x, &format!("{path}/[]"), pool, out, &rb);
            }
        }
        _ => {}
    }
}
fn fill_pool(v: &Val, path: &str, pool: &mut BTreeMap<String, BTreeSet<(String, Val)>>) {
    match v {
        Val::Obj(o) => {
            for (k, val) in o {
                pool.entry(path.to_string()).or_default().insert((k.clone(), val.clone()));
                fill_pool(val, &format!("{path}/{k}"), pool);
            }
        }
        Val::List(xs) => {
            for x in xs {
                fill_pool(x, &format!("{path}/[]"), pool);
            }
        }
        _ => {}
    }
}
fn show_val(v: &Val) -> String {
    match v {
        Val::Null => "null".into(),
        Val::Scalar(k) => format!("<{k}>"),
        Val::Str(s) => format!("{s:?}"),
        Val::List(xs) => format!("[{}]", xs.iter().map(show_val).collect::<Vec<_>>().join(", ")),
        Val::Obj(o) => format!("{{{}}}", o.iter().map(|(k, v)| format!("{k}: {}", show_val(v))).collect::<Vec<_>>().join(", ")),
    }
}

// ------------------------------------------------------------------------------------------------ operations family
fn f(name: &'static str) -> Sel {
    Sel::Field { alias: None, name, dirs: Dirs::default(), sel: vec![] }
}
fn fs(name: &'static str, sel: Vec<Sel>) -> Sel {
    Sel::Field { alias: None, name, dirs: Dirs::default(), sel }
}
fn with(mut s: Sel, d: Dirs) -> Sel {
    match &mut s {
        Sel::Field { dirs, .. } | Sel::Inline { dirs, .. } | Sel::Spread { dirs, .. } => *dirs = d,
    }
    s
}
fn alias(a: &'static str, s: Sel) -> Sel {
    match s {
        Sel::Field { name, dirs, sel, .. } => Sel::Field { alias: Some(a), name, dirs, sel },
        other => other,
    }
}
fn on(cond: &'static str, sel: Vec<Sel>) -> Sel {
    Sel::Inline { cond: Some(cond), dirs: Dirs::default(), sel }
}
fn skip(c: Cond) -> Dirs {
    Dirs { skip: Some(c), include: None }
}
fn incl(c: Cond) -> Dirs {
    Dirs { skip: None, include: Some(c) }
}
fn both(s: Cond, i: Cond) -> Dirs {
    Dirs { skip: Some(s), include: Some(i) }
}
fn operations(thorough: bool) -> Vec<(String, Op)> {
    let mut v: Vec<(String, Op)> = vec![];
    let mut add = |label: &str, vars: Vec<&'static str>, sel: Vec<Sel>, frags: Vec<(&'static str, &'static str, Vec<Sel>)>| v.push((label.to_string(), Op { vars, sel, frags }));
    let a = || Cond::Var("a");
    let b = || Cond::Var("b");
    // leaves: nullability and list wrappers
    add("scalar leaves", vec![], vec![f("n"), f("m"), f("deep")], vec![]);
    add("object and list fields", vec![], vec![fs("user", vec![f("id"), f("name")]), fs("users", vec![f("id")]), fs("maybe", vec![f("name")])], vec![]);
    add("nested objects", vec![], vec![fs("user", vec![f("id"), fs("friend", vec![f("name"), fs("posts", vec![f("title")])])])], vec![]);
    add("aliases", vec![], vec![alias("x", f("n")), alias("y", fs("user", vec![alias("z", f("name"))])), f("m")], vec![]);
    // directives with literal conditions
    for (lbl, d) in [("@skip(if: true)", skip(Cond::Lit(true))), ("@skip(if: false)", skip(Cond::Lit(false))), ("@include(if: true)", incl(Cond::Lit(true))), ("@include(if: false)", incl(Cond::Lit(false))), ("@skip(if: false) @include(if: false)", both(Cond::Lit(false), Cond::Lit(false))), ("@skip(if: true) @include(if: true)", both(Cond::Lit(true), Cond::Lit(true)))] {
        add(&format!("literal directive {lbl} on a leaf and on an object field"), vec![], vec![f("n"), with(f("m"), d.clone()), with(fs("user", vec![f("id")]), d.clone())], vec![]);
        add(&format!("literal directive {lbl} on fragments"), vec![], vec![f("n"), with(Sel::Inline { cond: None, dirs: Dirs::default(), sel: vec![f("m")] }, d.clone()), fs("user", vec![f("id"), with(Sel::Spread { name: "F", dirs: Dirs::default() }, d.clone())])], vec![("F", "User", vec![f("name")])]);
    }
    // directives with variable conditions
    add("one variable, one field", vec!["a"], vec![f("n"), with(f("m"), skip(a()))], vec![]);
    add("one variable, include", vec!["a"], vec![f("n"), with(fs("user", vec![f("id")]), incl(a()))], vec![]);
    add("one variable on two fields (correlated)", vec!["a"], vec![with(f("n"), skip(a())), with(f("m"), skip(a()))], vec![]);
    add("one variable, skip on one field and include on another (anti-correlated)", vec!["a"], vec![with(f("n"), skip(a())), with(f("m"), incl(a()))], vec![]);
    add("two variables on two fields", vec!["a", "b"], vec![with(f("n"), skip(a())), with(f("m"), incl(b()))], vec![]);
    add("two variables on one field", vec!["a", "b"], vec![f("n"), with(f("m"), both(a(), b()))], vec![]);
    add("variable directive then literal directive on one field", vec!["a"], vec![f("n"), with(f("m"), both(a(), Cond::Lit(true))), with(alias("m2", f("m")), both(a(), Cond::Lit(false)))], vec![]);
    add("two variables: variable skip first, variable include second, and a sibling sharing the first", vec!["a", "b"], vec![fs("user", vec![with(f("id"), both(a(), b())), with(f("name"), skip(a()))])], vec![]);
    add("variable inside a nested object", vec!["a"], vec![fs("user", vec![f("id"), with(f("name"), skip(a()))]), f("n")], vec![]);
    add("variable on an inline fragment and on a spread", vec!["a", "b"], vec![fs("user", vec![f("id"), with(Sel::Inline { cond: None, dirs: Dirs::default(), sel: vec![f("name")] }, incl(a())), with(Sel::Spread { name: "F", dirs: Dirs::default() }, skip(b()))])], vec![("F", "User", vec![fs("posts", vec![f("id")])])]);
    add("the same fragment spread twice under different variables", vec!["a", "b"], vec![fs("user", vec![with(Sel::Spread { name: "F", dirs: Dirs::default() }, skip(a())), with(Sel::Spread { name: "F", dirs: Dirs::default() }, incl(b()))])], vec![("F", "User", vec![f("id")])]);
    add("variable in nested levels", vec!["a", "b"], vec![fs("user", vec![with(f("id"), skip(a())), fs("friend", vec![with(f("name"), incl(b())), f("id")])])], vec![]);
    add("variable directives inside a named fragment", vec!["a"], vec![fs("user", vec![f("id"), Sel::Spread { name: "F", dirs: Dirs::default() }])], vec![("F", "User", vec![f("name"), with(fs("friend", vec![f("id")]), skip(a()))])]);
    add("include variable inside a named fragment spread twice", vec!["a"], vec![fs("user", vec![Sel::Spread { name: "F", dirs: Dirs::default() }]), fs("users", vec![Sel::Spread { name: "F", dirs: Dirs::default() }])], vec![("F", "User", vec![f("id"), with(f("name"), incl(a()))])]);
    add("variables inside nested named fragments and on the spread", vec!["a", "b"], vec![fs("user", vec![with(Sel::Spread { name: "A", dirs: Dirs::default() }, incl(b()))])], vec![("A", "User", vec![f("id"), Sel::Spread { name: "B", dirs: Dirs::default() }]), ("B", "User", vec![with(f("name"), skip(a()))])]);
    add("variable inside a fragment on an abstract type", vec!["a"], vec![fs("node", vec![Sel::Spread { name: "N", dirs: Dirs::default() }])], vec![("N", "Node", vec![f("id"), with(on("Post", vec![f("title")]), skip(a()))])]);
    add("__typename under a variable", vec!["a"], vec![fs("user", vec![with(f("__typename"), skip(a())), f("id")])], vec![]);
    add("aliased __typename under a variable, __typename under literals", vec!["a"], vec![fs("thing", vec![with(alias("kind", f("__typename")), incl(a())), on("User", vec![f("name")])]), with(f("__typename"), skip(Cond::Lit(true))), with(alias("t2", f("__typename")), incl(Cond::Lit(true)))], vec![]);
    add("__typename under a variable inside a fragment on an interface", vec!["a"], vec![fs("node", vec![Sel::Spread { name: "N", dirs: Dirs::default() }])], vec![("N", "Node", vec![with(f("__typename"), incl(a())), f("id")])]);
    // abstract types
    add("union with inline fragments", vec![], vec![fs("thing", vec![f("__typename"), on("User", vec![f("name")]), on("Post", vec![f("title")])])], vec![]);
    add("union list, one branch only", vec![], vec![fs("things", vec![on("User", vec![f("id")])])], vec![]);
    add("interface with a common field and a refinement", vec![], vec![fs("node", vec![f("id"), on("User", vec![f("name")])])], vec![]);
    add("interface through a named fragment on the interface and on an implementor", vec![], vec![fs("node", vec![Sel::Spread { name: "N", dirs: Dirs::default() }, Sel::Spread { name: "P", dirs: Dirs::default() }])], vec![("N", "Node", vec![f("id")]), ("P", "Post", vec![f("title"), fs("author", vec![f("id")])])]);
    add("union with a variable on one branch", vec!["a"], vec![fs("thing", vec![with(on("User", vec![f("name")]), skip(a())), on("Post", vec![f("title")]), f("__typename")])], vec![]);
    add("interface fragment inside a union", vec![], vec![fs("things", vec![on("Node", vec![f("id")]), on("Post", vec![f("title")])])], vec![]);
    // an interface that implements an interface; an object that implements only the parent interface
    add("a field of an interface that implements another", vec![], vec![fs("entity", vec![f("__typename"), f("id"), f("label")])], vec![]);
    add("parent-interface and object conditions inside the child interface", vec![], vec![fs("entity", vec![f("id"), on("Node", vec![f("__typename")]), on("Org", vec![f("label")])])], vec![]);
    add("child-interface condition inside the parent interface", vec![], vec![fs("node", vec![f("id"), on("Entity", vec![f("label")]), f("__typename")])], vec![]);
    add("conditions on an object that implements only the parent interface", vec![], vec![fs("node", vec![on("Tag", vec![f("id")]), on("Entity", vec![f("label")])]), fs("entity", vec![on("Node", vec![f("id")])])], vec![]);
    add("a fragment on the child interface with a variable, over a list", vec!["a"], vec![fs("entities", vec![Sel::Spread { name: "E", dirs: Dirs::default() }])], vec![("E", "Entity", vec![f("id"), with(f("label"), skip(a()))])]);
    // merging of selection sets
    add("the same field twice with different sub-selections", vec![], vec![fs("user", vec![f("id")]), fs("user", vec![f("name")])], vec![]);
    add("a field directly and through a fragment", vec![], vec![fs("user", vec![f("id"), Sel::Spread { name: "F", dirs: Dirs::default() }])], vec![("F", "User", vec![f("id"), f("name")])]);
    add("merging under a variable", vec!["a"], vec![fs("user", vec![f("id")]), with(fs("user", vec![f("name")]), incl(a()))], vec![]);
    add("the same field twice, the first sub-selection with a variable", vec!["a"], vec![fs("user", vec![f("id"), with(f("name"), skip(a()))]), fs("user", vec![fs("friend", vec![f("id")])])], vec![]);
    add("the same field twice, the second sub-selection with a variable", vec!["a"], vec![fs("user", vec![fs("friend", vec![f("id")])]), fs("user", vec![f("id"), with(f("name"), incl(a()))])], vec![]);
    add("a field directly with a variable inside and again through a fragment on Query", vec!["a"], vec![fs("user", vec![f("id"), with(f("name"), skip(a()))]), Sel::Spread { name: "P", dirs: Dirs::default() }], vec![("P", "Query", vec![fs("user", vec![fs("posts", vec![f("title")])])])]);
    add("both sub-selections of a repeated field with the same variable", vec!["a"], vec![fs("user", vec![with(f("id"), skip(a()))]), fs("user", vec![with(f("name"), skip(a()))])], vec![]);
    add("three occurrences of a field: two variables, one unconditional", vec!["a", "b"], vec![fs("user", vec![with(f("id"), skip(a()))]), fs("user", vec![with(f("name"), incl(b())), with(alias("n2", f("name")), skip(a()))]), fs("user", vec![fs("posts", vec![f("id")])])], vec![]);
    add("both sub-selections of a repeated field with their own variable", vec!["a", "b"], vec![fs("user", vec![with(f("id"), skip(a()))]), fs("user", vec![with(f("name"), incl(b()))])], vec![]);
    add("a repeated abstract field, one sub-selection with a variable inside a type condition", vec!["a"], vec![fs("node", vec![f("id"), on("User", vec![with(f("name"), incl(a()))])]), fs("node", vec![on("Post", vec![f("title")]), on("User", vec![fs("friend", vec![f("id")])])])], vec![]);
    add("a repeated list field, one sub-selection with a variable", vec!["a"], vec![fs("users", vec![with(f("id"), skip(a()))]), fs("users", vec![f("name")])], vec![]);
    add("three occurrences of a field, a variable shared by the second and third only", vec!["a", "b"], vec![fs("user", vec![with(f("id"), skip(a()))]), fs("user", vec![with(f("name"), skip(b()))]), fs("user", vec![with(alias("nm", f("name")), skip(b()))])], vec![]);
    add("an aliased field under a variable next to unconditional fields", vec!["a"], vec![fs("user", vec![f("id"), with(alias("nick", f("name")), incl(a()))])], vec![("FA", "User", vec![f("id"), with(alias("nick", f("name")), skip(a()))])]);
    add("a leaf selected twice, omitted both times under one assignment", vec!["a", "b"], vec![with(f("n"), skip(a())), with(f("n"), skip(a())), with(f("m"), incl(a())), with(f("m"), incl(b()))], vec![]);
    add("an object field selected twice, both occurrences omitted", vec!["a"], vec![with(fs("user", vec![f("id")]), skip(Cond::Lit(true))), with(fs("user", vec![f("name")]), incl(Cond::Lit(false))), with(fs("node", vec![f("id")]), skip(a())), with(fs("node", vec![on("User", vec![f("name")])]), skip(a()))], vec![]);
    add("a leaf directly under a variable and again through a spread under another variable", vec!["a", "b"], vec![fs("user", vec![with(f("id"), incl(a())), with(Sel::Spread { name: "FI", dirs: Dirs::default() }, incl(b()))])], vec![("FI", "User", vec![f("id")])]);
    add("nested fragments", vec![], vec![fs("user", vec![Sel::Spread { name: "A", dirs: Dirs::default() }])], vec![("A", "User", vec![f("id"), Sel::Spread { name: "B", dirs: Dirs::default() }]), ("B", "User", vec![f("name"), fs("friend", vec![Sel::Spread { name: "C", dirs: Dirs::default() }])]), ("C", "User", vec![f("id")])]);
    // every ordered pair of ten sub-selection forms for one field selected twice (merging of sub-selections whose
    // branches depend on variables, fragments and aliases)
    {
        let sp = |name: &'static str| Sel::Spread { name, dirs: Dirs::default() };
        let forms: Vec<(&str, Vec<Sel>)> = vec![
            ("{ id }", vec![f("id")]),
            ("{ name @skip(a) }", vec![with(f("name"), skip(a()))]),
            ("{ id name @include(b) }", vec![f("id"), with(f("name"), incl(b()))]),
            ("{ friend { id } }", vec![fs("friend", vec![f("id")])]),
            ("{ friend { name @skip(a) } }", vec![fs("friend", vec![with(f("name"), skip(a()))])]),
            ("{ ...F }", vec![sp("F")]),
            ("{ ...G @include(a) }", vec![with(sp("G"), incl(a()))]),
            ("{ ... @skip(b) { name } }", vec![with(Sel::Inline { cond: None, dirs: Dirs::default(), sel: vec![f("name")] }, skip(b()))]),
            ("{ nm: name }", vec![alias("nm", f("name"))]),
            ("{ nm: name @skip(a) __typename }", vec![with(alias("nm", f("name")), skip(a())), f("__typename")]),
        ];
        let mut k = 0;
        for (la, fa) in &forms {
            for (lb, fb) in &forms {
                k += 1;
                if !thorough && k % 5 != 0 {
                    continue;
                }
                add(&format!("one field twice: user {la} user {lb}"), vec!["a", "b"], vec![fs("user", fa.clone()), fs("user", fb.clone())], vec![("F", "User", vec![f("id"), f("name")]), ("G", "User", vec![fs("posts", vec![f("title")])])]);
            }
        }
    }
    // the same for a field of interface type and for a list of a union: every ordered pair of six forms
    {
        let sp = |name: &'static str| Sel::Spread { name, dirs: Dirs::default() };
        let forms: Vec<(&str, Vec<Sel>)> = vec![
            ("{ id }", vec![f("id")]),
            ("{ ... on User { name @skip(a) } }", vec![on("User", vec![with(f("name"), skip(a()))])]),
            ("{ ... on Post { title } }", vec![on("Post", vec![f("title")])]),
            ("{ ...N }", vec![sp("N")]),
            ("{ __typename @include(b) }", vec![with(f("__typename"), incl(b()))]),
            ("{ ... on User { id } ... on Post { id title @include(a) } }", vec![on("User", vec![f("id")]), on("Post", vec![f("id"), with(f("title"), incl(a()))])]),
        ];
        let mut k = 0;
        for (la, fa) in &forms {
            for (lb, fb) in &forms {
                k += 1;
                if !thorough && k % 4 != 0 {
                    continue;
                }
                let frags = vec![("N", "Node", vec![f("id"), on("User", vec![fs("friend", vec![f("id")])])])];
                add(&format!("one interface field twice: node {la} node {lb}"), vec!["a", "b"], vec![fs("node", fa.clone()), fs("node", fb.clone())], frags.clone());
                if la != &"{ id }" && lb != &"{ id }" && la != &"{ ...N }" && lb != &"{ ...N }" {
                    add(&format!("one union list field twice: things {la} things {lb}"), vec!["a", "b"], vec![fs("things", fa.clone()), fs("things", fb.clone())], vec![]);
                }
            }
        }
    }
    if thorough {
        // every pair of directive placements on two sibling leaves
        let ds: Vec<(&str, Dirs)> = vec![("-", Dirs::default()), ("skip a", skip(a())), ("include a", incl(a())), ("skip b", skip(b())), ("include b", incl(b())), ("skip a include b", both(a(), b())), ("skip true", skip(Cond::Lit(true))), ("include false", incl(Cond::Lit(false)))];
        for (l1, d1) in &ds {
            for (l2, d2) in &ds {
                add(&format!("sibling leaves with [{l1}] and [{l2}]"), vec!["a", "b"], vec![fs("user", vec![with(f("id"), d1.clone()), with(f("name"), d2.clone())])], vec![]);
            }
        }
    }
    v
}

fn main() {
    let args: Vec<String> = std::env::args().collect();
    let thorough = args.get(1).map(|a| a == "thorough").unwrap_or(false);
    let only: Option<usize> = args.iter().position(|a| a == "--one").and_then(|i| args.get(i + 1)).and_then(|x| x.parse().ok());
    let clip = std::env::var("VX_CLI").unwrap_or_default();
    let ops = operations(thorough);
    let tmp = std::env::temp_dir().join(format!("vx-optype-{}", std::process::id()));
    let config = "schema: ./schema/*.graphql\ndocuments: ./ops/*.graphql\nextensions:\n  nitrogql:\n    generate:\n      schemaOutput: ./out/schema.d.ts\n".to_string();
    let results = cli::par_map(ops.len(), &tmp, |i, dir| {
        if let Some(o) = only {
            if o != i {
                return None;
            }
        }
        let out = cli::run(&clip, dir, &[("graphql.config.yaml".into(), config.clone()), ("schema/s.graphql".into(), SCHEMA.to_string()), ("ops/q.graphql".into(), show_op(&ops[i].1)), ("out/.keep".into(), String::new())], "generate");
        let ts = std::fs::read_to_string(dir.join("ops/q.d.graphql.ts")).ok();
        let schema_ts = std::fs::read_to_string(dir.join("out/schema.d.ts")).ok();
        Some((out, ts, schema_ts))
    });
    let _ = std::fs::remove_dir_all(&tmp);
    let mut failures = vec![];
    let mut per_family: BTreeMap<String, usize> = BTreeMap::new();
    let mut evaluations = 0usize;
    let (mut n_resp, mut n_mut, mut n_frag) = (0usize, 0usize, 0usize);
    for (i, ((label, op), r)) in ops.iter().zip(results.iter()).enumerate() {
        let Some((out, ts, schema_ts)) = r else { continue };
        evaluations += 1;
        let input = format!("[{label}]\n{}", show_op(op));
        let mut fail = |sig: String, why: String, got: String| failures.push((i, sig, input.clone(), why, got));
        if out.timed_out || out.panicked() || out.stderr.starts_with("harness:") {
            fail("generate panics or does not terminate".into(), String::new(), out.stderr.chars().take(500).collect());
            continue;
        }
        if !out.stderr.contains("'generate' finished") {
            fail("generate fails on a valid operation".into(), String::new(), out.stderr.chars().take(600).collect());
            continue;
        }
        let ts = ts.clone().unwrap_or_default();
        let schema_ts = schema_ts.clone().unwrap_or_default();
        if !prelude_is_known(&schema_ts) {
            fail("harness: the __SelectionSet utility type of the schema declaration is not the definition this reader interprets".into(), String::new(), schema_ts.chars().take(700).collect());
            continue;
        }
        let decl = match declared_objects(&schema_ts) {
            Ok(d) => d,
            Err(e) if e.contains("__typename is declared as") => {
                fail("C02: an object type of the schema declaration does not declare __typename as its own name".into(), e, String::new());
                continue;
            }
            Err(e) => {
                fail("harness: the __OperationOutput namespace of the schema declaration is outside the subset this reader understands".into(), e, String::new());
                continue;
            }
        };
        // C02, last clause: every object type declares __typename as its own name and every field of the schema type,
        // so no selected key is dropped by the utility type
        let mut decl_bad = false;
        for (ty, fields) in [("Query", vec!["n", "m", "user", "users", "maybe", "thing", "things", "node", "deep", "entity", "entities"]), ("User", vec!["id", "name", "friend", "posts"]), ("Post", vec!["id", "title", "author"]), ("Org", vec!["id", "label"]), ("Tag", vec!["id"])] {
            let want: BTreeSet<String> = fields.iter().map(|f| f.to_string()).chain(["__typename".to_string()]).collect();
            if decl.get(ty) != Some(&want) {
                fail("C02: an object type of the schema declaration does not declare exactly __typename and the fields of the schema type".into(), format!("{ty}: declared keys {:?}", decl.get(ty)), String::new());
                decl_bad = true;
                break;
            }
        }
        if decl_bad {
            continue;
        }
        // the operation's Result type and the exported type of every fragment of the document ("objects that match the fragment")
        let mut targets: Vec<(String, Vec<&'static str>, &[Sel])> = vec![("type QResult = ".to_string(), vec!["Query"], &op.sel)];
        for (name, cond, sels) in &op.frags {
            targets.push((format!("export type {name} = "), possible_types(cond), sels));
        }
        for (ti, (marker, concretes, sels)) in targets.iter().enumerate() {
            let what = if ti == 0 { "result type".to_string() } else { "fragment type".to_string() };
            let Some(st) = ts.find(marker.as_str()) else {
                fail(format!("harness: no `{}` in the declaration file", marker.trim()), String::new(), ts.chars().take(300).collect());
                break;
            };
            let body = &ts[st + marker.len()..];
            let end = body.find(";\n\n").unwrap_or(body.len());
            let text = &body[..end];
            let mut p = P { c: text.chars().collect(), i: 0, _s: text, decl: &decl };
            let ty = match p.union() {
                Ok(t) => t,
                Err(e) => {
                    fail(format!("harness: the {what} is outside the TypeScript subset this reader understands"), e, text.chars().take(600).collect());
                    break;
                }
            };
            let rs = responses(op, concretes, sels);
            n_resp += rs.len();
            if ti > 0 {
                n_frag += 1;
            }
            if let Some(r) = rs.iter().find(|r| !conforms(op, r, concretes, sels)) {
                fail("harness: the enumerator and the validator of the oracle disagree".into(), show_val(r), String::new());
                break;
            }
            // C01
            let mut bad = false;
            for r in &rs {
                if !member(r, &ty) {
                    fail(format!("C01: a response the operation can produce is not admitted by the {what}"), format!("{}response {}", if ti == 0 { String::new() } else { format!("{}: ", marker.trim()) }, show_val(r)), text.chars().take(900).collect());
                    bad = true;
                    break;
                }
            }
            if bad {
                break;
            }
            // C02
            let mut pool = BTreeMap::new();
            for r in &rs {
                fill_pool(r, "", &mut pool);
            }
            let mut seen = BTreeSet::new();
            'outer: for r in &rs {
                let mut ms = vec![];
                mutations(r, "", &pool, &mut ms, &|v| v);
                for (how, m) in ms {
                    if !seen.insert(m.clone()) || conforms(op, &m, concretes, sels) {
                        continue;
                    }
                    n_mut += 1;
                    if member(&m, &ty) {
                        let kind = how.rsplit(": ").next().unwrap_or("").split(" to ").next().unwrap_or("").to_string();
                        fail(format!("C02: the {what} admits a value no execution can return ({kind})"), format!("{}{how}: {} (from the response {})", if ti == 0 { String::new() } else { format!("{}: ", marker.trim()) }, show_val(&m), show_val(r)), text.chars().take(900).collect());
                        bad = true;
                        break 'outer;
                    }
                }
            }
            if bad {
                break;
            }
        }
    }
    per_family.insert("operations".into(), evaluations);
    per_family.insert("exported fragment types checked".into(), n_frag);
    per_family.insert("responses enumerated (C01 membership checks)".into(), n_resp);
    per_family.insert("distinct non-responses tried (C02 non-membership checks)".into(), n_mut);
    let samples: Vec<String> = ops.iter().enumerate().filter(|(i, _)| i % (ops.len() / 6).max(1) == 2).take(6).map(|(i, (l, o))| format!("[#{i} {l}] {}", show_op(o).replace('\n', " "))).collect();
    cli::report(evaluations, per_family, samples, failures);
}
