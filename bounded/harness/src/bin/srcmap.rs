//! BOUNDED stand-in (not a proof) for the end-to-end part of property C06 that no contract reaches: which node every
//! printer maps a chunk to (about sixty print_type impls), the file-index remapping in crates/cli/src/generate.rs and
//! the JSON of the .map file (print_source_map_json).  The real `nitrogql-cli` binary built from the tree under check
//! (path in $VX_CLI) is run with `generate` on every project of a stated finite family; every emitted `.map` is read by
//! an independent Source Map v3 reader and checked against the generated text and the GraphQL inputs.
//! usage: srcmap <quick|thorough> [--one <index>]      env: VX_CLI=<path of nitrogql-cli>
use std::collections::{BTreeMap, BTreeSet};
use std::path::{Path, PathBuf};

use serde_json::Value as J;

struct Failure {
    signature: String,
    index: usize,
    project: String,
    why: String,
    got: String,
}

// ------------------------------------------------------------------------------------------------ Source Map v3 reader
fn b64(c: char) -> Option<i64> {
    "ABCDEFGHIJKLMNOPQRSTUVWXYZabcdefghijklmnopqrstuvwxyz0123456789+/".find(c).map(|i| i as i64)
}
fn vlq_fields(seg: &str) -> Result<Vec<i64>, String> {
    let mut out = vec![];
    let mut shift = 0u32;
    let mut acc: i64 = 0;
    let mut open = false;
    for c in seg.chars() {
        let d = b64(c).ok_or_else(|| format!("character {c:?} is not base64"))?;
        open = true;
        acc += (d & 31) << shift;
        if d & 32 != 0 {
            shift += 5;
            if shift > 60 {
                return Err("VLQ value too long".into());
            }
        } else {
            let neg = acc & 1 == 1;
            let v = acc >> 1;
            out.push(if neg { -v } else { v });
            acc = 0;
            shift = 0;
            open = false;
        }
    }
    if open {
        return Err("VLQ value ends in a continuation digit".into());
    }
    Ok(out)
}
#[derive(Debug, Clone)]
struct Seg {
    gl: i64,
    gc: i64,
    src: i64,
    ol: i64,
    oc: i64,
    name: Option<i64>,
}
fn decode(mappings: &str) -> Result<Vec<Seg>, String> {
    let (mut src, mut ol, mut oc, mut name) = (0i64, 0i64, 0i64, 0i64);
    let mut out = vec![];
    for (gl, line) in mappings.split(';').enumerate() {
        let mut gc = 0i64;
        if line.is_empty() {
            continue;
        }
        for seg in line.split(',') {
            if seg.is_empty() {
                return Err("empty segment".into());
            }
            let f = vlq_fields(seg)?;
            if f.len() != 4 && f.len() != 5 {
                return Err(format!("segment with {} fields", f.len()));
            }
            gc += f[0];
            src += f[1];
            ol += f[2];
            oc += f[3];
            let n = if f.len() == 5 {
                name += f[4];
                Some(name)
            } else {
                None
            };
            out.push(Seg { gl: gl as i64, gc, src, ol, oc, name: n });
        }
    }
    Ok(out)
}
fn u16len(s: &str) -> usize {
    s.chars().map(|c| c.len_utf16()).sum()
}
/// the rest of `line` from UTF-16 column `col` (None if col is not on a character boundary / past the end)
fn from_col(line: &str, col: usize) -> Option<&str> {
    let mut u = 0usize;
    for (i, c) in line.char_indices() {
        if u == col {
            return Some(&line[i..]);
        }
        u += c.len_utf16();
        if u > col {
            return None;
        }
    }
    if u == col { Some("") } else { None }
}
fn is_name_char(c: char) -> bool {
    c.is_ascii_alphanumeric() || c == '_'
}
fn lexical_normalize(p: &Path) -> PathBuf {
    let mut out = PathBuf::new();
    for c in p.components() {
        match c {
            std::path::Component::ParentDir => {
                out.pop();
            }
            std::path::Component::CurDir => {}
            c => out.push(c.as_os_str()),
        }
    }
    out
}

// ------------------------------------------------------------------------------------------------ projects
#[derive(Clone)]
struct Project {
    label: String,
    config: String,
    files: Vec<(String, String)>,
    /// (name, file that defines it) of every definition / field that must carry a segment
    expect: Vec<(String, String)>,
    /// generated file (relative) -> nothing; filled by discovery
    schema_output: Option<String>,
}

const KEYWORDS: [&str; 12] = ["type", "interface", "union", "enum", "input", "scalar", "query", "mutation", "subscription", "fragment", "directive", "extend"];

fn schema_variants() -> Vec<(&'static str, Vec<(String, String)>, Vec<(String, String)>)> {
    // (label, files, expected names)
    let a = "type Query {\n  user(id: ID!): User\n  \"doc \u{e9}\" hello: Int\n  things: [Thing!]!\n}\n\"\"\"\nblock\ndoc\n\"\"\"\ntype User implements Node { id: ID! name: String posts: [Post!]! }\ninterface Node { id: ID! }\n";
    let b = "type Post implements Node { id: ID! title: String color: Color }\nenum Color { RED GREEN }\ninput Filter { word: String = \"x\" nested: [Filter!] }\nunion Thing = User | Post\nscalar Date\ntype Mutation { rename(id: ID!, to: String!, filter: Filter): User }\n";
    let exp_a = ["Query", "user", "hello", "things", "User", "name", "posts", "Node"];
    let exp_b = ["Post", "title", "color", "Color", "Filter", "word", "nested", "Thing", "Date", "Mutation", "rename"];
    let e = |names: &[&str], file: &str| names.iter().map(|n| (n.to_string(), file.to_string())).collect::<Vec<_>>();
    vec![
        ("one-file", vec![("schema/all.graphql".to_string(), format!("{a}{b}"))], [e(&exp_a, "schema/all.graphql"), e(&exp_b, "schema/all.graphql")].concat()),
        ("two-files", vec![("schema/a.graphql".to_string(), a.to_string()), ("schema/b.graphql".to_string(), b.to_string())], [e(&exp_a, "schema/a.graphql"), e(&exp_b, "schema/b.graphql")].concat()),
        (
            "astral-and-extend",
            vec![
                ("schema/a.graphql".to_string(), format!("\"\u{1F600}\u{1F600}\" type Wide {{ \"\u{1F600}\" w: Int }}\n{a}")),
                ("schema/b.graphql".to_string(), format!("{b}extend type Query {{ extra: Date }}\n")),
            ],
            [e(&exp_a, "schema/a.graphql"), e(&["Wide", "w"], "schema/a.graphql"), e(&exp_b, "schema/b.graphql"), e(&["extra"], "schema/b.graphql")].concat(),
        ),
    ]
}
fn operation_variants() -> Vec<(&'static str, Vec<(String, String)>, Vec<(String, String)>)> {
    let e = |names: &[(&str, &str)]| names.iter().map(|(n, f)| (n.to_string(), f.to_string())).collect::<Vec<_>>();
    vec![
        ("none", vec![], vec![]),
        (
            "local",
            vec![(
                "ops/q.graphql".to_string(),
                "query GetUser($id: ID!) {\n  user(id: $id) { ...UserFrag posts { id title } }\n}\nfragment UserFrag on User { id name }\nmutation Rename($id: ID!, $to: String!) { rename(id: $id, to: $to) { id } }\n".to_string(),
            )],
            e(&[("GetUser", "ops/q.graphql"), ("UserFrag", "ops/q.graphql"), ("Rename", "ops/q.graphql")]),
        ),
        (
            "imported",
            vec![
                ("ops/q.graphql".to_string(), "#import UserFrag from \"./frags/f.graphql\"\nquery GetUser($id: ID!) { user(id: $id) { ...UserFrag } }\n".to_string()),
                ("ops/frags/f.graphql".to_string(), "#import PostFrag from \"./g.graphql\"\nfragment UserFrag on User { id name posts { ...PostFrag } }\n".to_string()),
                ("ops/frags/g.graphql".to_string(), "fragment PostFrag on Post { id title }\n".to_string()),
            ],
            e(&[("GetUser", "ops/q.graphql"), ("UserFrag", "ops/frags/f.graphql"), ("PostFrag", "ops/frags/g.graphql")]),
        ),
        (
            // selection sets nested 12 deep (indentation far beyond any fixed-size buffer): every segment must still sit on
            // its identifier (seeded change C06-11 tracked the column of an indentation longer than the one it wrote)
            "nested-12-deep",
            vec![
                ("schema/tree.graphql".to_string(), "type Tree { id: ID! label: String child: Tree }\nextend type Query { tree: Tree }\n".to_string()),
                (
                    "ops/deep.graphql".to_string(),
                    format!("query Deep {{\n  tree {}{}\n}}\n", "{ id child ".repeat(11), "{ id label }".to_string() + &" }".repeat(11)),
                ),
            ],
            e(&[("Deep", "ops/deep.graphql"), ("Tree", "schema/tree.graphql"), ("label", "schema/tree.graphql"), ("child", "schema/tree.graphql"), ("tree", "schema/tree.graphql")]),
        ),
        (
            "anonymous-and-things",
            vec![("ops/deep/dir/a.graphql".to_string(), "query { things { ... on User { name } ... on Post { title } } hello }\n".to_string())],
            vec![],
        ),
    ]
}
fn is_schema_src(f: &str) -> bool {
    f.starts_with("schema") || f.starts_with("packages/api/")
}
fn projects(thorough: bool) -> Vec<Project> {
    let mut out = vec![];
    let modes = ["with-loader-ts-5.0", "with-loader-ts-4.0", "standalone-ts-4.0"];
    let outputs = ["out/schema.d.ts", "schema.d.ts", "gen/deep/types/schema.d.ts"];
    for (sl, sfiles, sexp) in schema_variants() {
        for (ol, ofiles, oexp) in operation_variants() {
            for (mi, mode) in modes.iter().enumerate() {
                for (oi, so) in outputs.iter().enumerate() {
                    if !thorough && (mi + oi) % 3 != 0 && !(ol == "imported" && oi == 0) {
                        continue;
                    }
                    let so = if *mode == "standalone-ts-4.0" { so.replace(".d.ts", ".ts") } else { so.to_string() };
                    let config = format!(
                        "schema: ./schema/*.graphql\ndocuments: ./ops/**/*.graphql\nextensions:\n  nitrogql:\n    generate:\n      mode: {mode}\n      schemaOutput: ./{so}\n      type:\n        scalarTypes:\n          Date: string\n"
                    );
                    let mut files = sfiles.clone();
                    files.extend(ofiles.clone());
                    let mut expect = sexp.clone();
                    expect.extend(oexp.clone());
                    out.push(Project { label: format!("schema={sl} operations={ol} mode={mode} schemaOutput={so}"), config, files, expect, schema_output: Some(so) });
                }
            }
        }
    }
    // monorepo layout: the generated file's path and the source paths diverge and then share a directory name at the
    // same depth (packages/web/src/.. against packages/api/src/..); `sources` must still resolve to the real files
    let (_, sfiles, sexp) = schema_variants().into_iter().nth(1).unwrap();
    for mode in modes {
        let so = if mode == "standalone-ts-4.0" { "packages/web/src/generated/schema.ts" } else { "packages/web/src/generated/schema.d.ts" };
        let mv = |p: &str| p.replace("schema/", "packages/api/src/");
        let mut files: Vec<(String, String)> = sfiles.iter().map(|(p, c)| (mv(p), c.clone())).collect();
        let mut expect: Vec<(String, String)> = sexp.iter().map(|(n, f)| (n.clone(), mv(f))).collect();
        files.push(("packages/web/src/q.graphql".to_string(), "#import UserFrag from \"../../shared/src/f.graphql\"\nquery GetUser($id: ID!) { user(id: $id) { ...UserFrag } }\n".to_string()));
        files.push(("packages/shared/src/f.graphql".to_string(), "fragment UserFrag on User { id name }\n".to_string()));
        expect.push(("GetUser".to_string(), "packages/web/src/q.graphql".to_string()));
        expect.push(("UserFrag".to_string(), "packages/shared/src/f.graphql".to_string()));
        let config = format!(
            "schema: ./packages/api/src/*.graphql\ndocuments:\n  - ./packages/web/src/**/*.graphql\n  - ./packages/shared/src/**/*.graphql\nextensions:\n  nitrogql:\n    generate:\n      mode: {mode}\n      schemaOutput: ./{so}\n      type:\n        scalarTypes:\n          Date: string\n"
        );
        out.push(Project { label: format!("monorepo layout (packages/api/src, packages/web/src, packages/shared/src) mode={mode} schemaOutput={so}"), config, files, expect, schema_output: Some(so.to_string()) });
    }
    // a plugin that adds schema text of its own (a virtual source that is not a file of the project): the `sources` of every
    // map must still resolve and every segment of the operation maps must still point into the operation's own files
    let (_, sfiles, sexp) = schema_variants().into_iter().nth(1).unwrap();
    let (_, ofiles, oexp) = operation_variants().into_iter().nth(2).unwrap();
    for mode in modes {
        let so = if mode == "standalone-ts-4.0" { "out/schema.ts" } else { "out/schema.d.ts" };
        let mut files = sfiles.clone();
        files.extend(ofiles.clone());
        let mut expect = sexp.clone();
        expect.extend(oexp.clone());
        let config = format!(
            "schema: ./schema/*.graphql\ndocuments: ./ops/**/*.graphql\nextensions:\n  nitrogql:\n    plugins:\n      - \"nitrogql:model-plugin\"\n    generate:\n      mode: {mode}\n      schemaOutput: ./{so}\n      type:\n        scalarTypes:\n          Date: string\n"
        );
        out.push(Project { label: format!("model plugin enabled (a virtual schema source) schema=two-files operations=imported mode={mode} schemaOutput={so}"), config, files, expect, schema_output: Some(so.to_string()) });
    }
    out
}

// ------------------------------------------------------------------------------------------------ the check
fn walk(dir: &Path, out: &mut Vec<PathBuf>) {
    if let Ok(rd) = std::fs::read_dir(dir) {
        for e in rd.flatten() {
            let p = e.path();
            if p.is_dir() {
                walk(&p, out);
            } else {
                out.push(p);
            }
        }
    }
}

fn check_project(cli: &str, index: usize, p: &Project, root: &Path, failures: &mut Vec<Failure>, stats: &mut (usize, usize)) {
    let _ = std::fs::remove_dir_all(root);
    std::fs::create_dir_all(root).unwrap();
    std::fs::write(root.join("graphql.config.yaml"), &p.config).unwrap();
    for (f, text) in &p.files {
        let fp = root.join(f);
        std::fs::create_dir_all(fp.parent().unwrap()).unwrap();
        std::fs::write(fp, text).unwrap();
    }
    if let Some(so) = &p.schema_output {
        if let Some(parent) = root.join(so).parent() {
            std::fs::create_dir_all(parent).unwrap();
        }
    }
    let mut fail = |signature: String, why: String, got: String| failures.push(Failure { signature, index, project: p.label.clone(), why, got });
    let run = std::process::Command::new(cli).arg("generate").current_dir(root).output();
    let run = match run {
        Ok(r) => r,
        Err(e) => {
            fail("harness: cannot run the CLI".into(), e.to_string(), String::new());
            return;
        }
    };
    if !run.status.success() {
        fail("`nitrogql generate` fails on a valid project".into(), format!("exit status {:?}", run.status.code()), String::from_utf8_lossy(&run.stderr).chars().take(1200).collect());
        return;
    }
    let inputs: BTreeMap<PathBuf, String> = p.files.iter().map(|(f, t)| (lexical_normalize(&root.join(f)), t.clone())).collect();
    let mut all = vec![];
    walk(root, &mut all);
    let maps: Vec<PathBuf> = all.iter().filter(|f| f.extension().map(|e| e == "map").unwrap_or(false)).cloned().collect();
    if maps.is_empty() {
        fail("`nitrogql generate` reports success but wrote no source map".into(), String::from_utf8_lossy(&run.stderr).chars().take(600).collect(), String::new());
        return;
    }
    // every generated declaration file has a map next to it
    let generated: Vec<PathBuf> = all.iter().filter(|f| { let n = f.file_name().unwrap().to_string_lossy().to_string(); (n.ends_with(".ts")) && !inputs.contains_key(&lexical_normalize(f)) }).cloned().collect();
    for g in &generated {
        let m = PathBuf::from(format!("{}.map", g.display()));
        if !m.exists() {
            fail("generated file without a .map next to it".into(), format!("{} has no map", g.strip_prefix(root).unwrap().display()), String::new());
        }
    }
    // definitions seen with a good segment: (name, defining file)
    let mut covered: BTreeSet<(String, String)> = BTreeSet::new();
    let mut printed_names: BTreeSet<String> = BTreeSet::new();
    for m in &maps {
        stats.0 += 1;
        let rel = m.strip_prefix(root).unwrap().display().to_string();
        let kind = if p.schema_output.as_ref().map(|so| rel == format!("{so}.map")).unwrap_or(false) { "schema" } else { "operation" };
        let text = std::fs::read_to_string(m).unwrap_or_default();
        let j: J = match serde_json::from_str(&text) {
            Ok(j) => j,
            Err(e) => {
                fail(format!("{kind} map: not JSON"), format!("{rel}: {e}"), text.chars().take(400).collect());
                continue;
            }
        };
        let gpath = PathBuf::from(m.display().to_string().trim_end_matches(".map").to_string());
        let gtext = std::fs::read_to_string(&gpath).unwrap_or_default();
        let glines: Vec<&str> = gtext.split('\n').collect();
        let ok_shape = j.get("version").and_then(|v| v.as_i64()) == Some(3)
            && j.get("sources").and_then(|s| s.as_array()).map(|a| a.iter().all(|x| x.is_string())).unwrap_or(false)
            && j.get("names").and_then(|s| s.as_array()).map(|a| a.iter().all(|x| x.is_string())).unwrap_or(false)
            && j.get("mappings").map(|s| s.is_string()).unwrap_or(false);
        if !ok_shape {
            fail(format!("{kind} map: not a Source Map v3 object"), rel.clone(), text.chars().take(400).collect());
            continue;
        }
        if j.get("file").and_then(|f| f.as_str()) != gpath.file_name().and_then(|f| f.to_str()) {
            fail(format!("{kind} map: `file` is not the generated file's name"), format!("{rel}: file = {:?}", j.get("file")), String::new());
        }
        let sources: Vec<String> = j["sources"].as_array().unwrap().iter().map(|x| x.as_str().unwrap().to_string()).collect();
        let names: Vec<String> = j["names"].as_array().unwrap().iter().map(|x| x.as_str().unwrap().to_string()).collect();
        // sources resolve, relative to the map, to input files
        let mut src_text: Vec<Option<(String, String)>> = vec![];
        for s in &sources {
            let abs = lexical_normalize(&m.parent().unwrap().join(s));
            match inputs.get(&abs) {
                Some(t) => src_text.push(Some((abs.strip_prefix(root).unwrap().display().to_string(), t.clone()))),
                // an entry that no segment references is not covered by the property (a plugin's virtual source is listed
                // like that): it becomes a failure when a segment points into it, below
                None => src_text.push(None),
            }
        }
        let segs = match decode(j["mappings"].as_str().unwrap()) {
            Ok(s) => s,
            Err(e) => {
                fail(format!("{kind} map: mappings do not decode: {e}"), rel.clone(), j["mappings"].as_str().unwrap().chars().take(300).collect());
                continue;
            }
        };
        stats.1 += segs.len();
        let mut prev: Option<(i64, i64)> = None;
        let mut prev_named: Option<(i64, i64, i64, usize)> = None; // src, ol, oc, name length
        for s in &segs {
            let ctx = || format!("{rel}: segment {s:?}");
            if let Some((pl, pc)) = prev {
                if s.gl < pl || (s.gl == pl && s.gc < pc) {
                    fail(format!("{kind} map: segments out of order"), ctx(), String::new());
                }
            }
            prev = Some((s.gl, s.gc));
            let gline = if s.gl >= 0 { glines.get(s.gl as usize) } else { None };
            let grest = match gline.and_then(|l| if s.gc >= 0 { from_col(l, s.gc as usize) } else { None }) {
                Some(r) => r,
                None => {
                    fail(format!("{kind} map: segment outside the generated text"), ctx(), String::new());
                    continue;
                }
            };
            if s.src < 0 || s.src as usize >= sources.len() {
                fail(format!("{kind} map: source index out of range"), format!("{} (sources: {sources:?})", ctx()), String::new());
                prev_named = None;
                continue;
            }
            let Some((sfile, stext)) = src_text[s.src as usize].clone() else {
                fail(format!("{kind} map: a segment references a `sources` entry that does not resolve to a GraphQL input file"), format!("{}: sources entry {:?}", ctx(), sources[s.src as usize]), String::new());
                prev_named = None;
                continue;
            };
            let slines: Vec<&str> = stext.split('\n').collect();
            let orest = if s.ol >= 0 { slines.get(s.ol as usize).and_then(|l| if s.oc >= 0 { from_col(l, s.oc as usize) } else { None }) } else { None };
            let Some(orest) = orest else {
                let astral = if s.ol >= 0 && slines.get(s.ol as usize).map(|l| l.chars().any(|c| c.len_utf16() == 2)).unwrap_or(false) { " [non-BMP character on the source line]" } else { "" };
                fail(format!("{kind} map: original position outside the source file{astral}"), format!("{} in {sfile}", ctx()), String::new());
                prev_named = None;
                continue;
            };
            let oline = slines[s.ol as usize];
            let astral = if oline.chars().any(|c| c.len_utf16() == 2) { " [non-BMP character on the source line]" } else { "" };
            let before: Option<char> = {
                let head = &oline[..oline.len() - orest.len()];
                head.chars().last()
            };
            let first = orest.chars().next();
            let token_start = match first {
                None => false,
                Some(c) if c.is_whitespace() || c == ',' => false,
                Some(c) if is_name_char(c) => before.map(|b| !is_name_char(b)).unwrap_or(true),
                Some(_) => true,
            };
            let closes_previous = prev_named.map(|(ps, pl, pc, len)| ps == s.src && pl == s.ol && pc + len as i64 == s.oc).unwrap_or(false);
            match s.name {
                Some(n) => {
                    if n < 0 || n as usize >= names.len() {
                        fail(format!("{kind} map: name index out of range"), ctx(), String::new());
                        prev_named = None;
                        continue;
                    }
                    let name = &names[n as usize];
                    let own = orest.starts_with(name.as_str()) && orest[name.len()..].chars().next().map(|c| !is_name_char(c)).unwrap_or(true) && token_start;
                    // or: the keyword of the definition that is called `name`
                    let by_keyword = token_start && KEYWORDS.iter().any(|k| orest.starts_with(k)) && {
                        let mut words = stext.split('\n').skip(s.ol as usize).collect::<Vec<_>>().join("\n");
                        words = words[(oline.len() - orest.len()).min(words.len())..].to_string();
                        let toks: Vec<&str> = words.split(|c: char| !is_name_char(c)).filter(|w| !w.is_empty()).take(4).collect();
                        toks.iter().skip(1).take(3).any(|t| t == name) || (toks.first() == Some(&"extend") && toks.get(2) == Some(&name.as_str()))
                    };
                    if !(own || by_keyword) {
                        fail(format!("{kind} map: a named segment does not point at that name (or at the keyword of its definition){astral}"), format!("{} name {name:?} in {sfile}, source there: {:?}", ctx(), orest.chars().take(30).collect::<String>()), String::new());
                    } else if grest.starts_with(name.as_str()) || grest.to_lowercase().starts_with(&name.to_lowercase()) {
                        covered.insert((name.clone(), sfile.clone()));
                    }
                    if grest.starts_with(name.as_str()) {
                        printed_names.insert(name.clone());
                    }
                    prev_named = Some((s.src, s.ol, s.oc, u16len(name)));
                }
                None => {
                    if !(token_start || closes_previous) {
                        fail(format!("{kind} map: original position is not the start of a token{astral}"), format!("{} in {sfile}, source there: {:?}", ctx(), orest.chars().take(30).collect::<String>()), String::new());
                    }
                    prev_named = None;
                }
            }
        }
    }
    // every generated identifier that declares an expected definition carries a segment (declaration sites are recognised
    // syntactically in the generated TypeScript: `type N`, `const N`, and property keys `[readonly ]n[?]:`)
    let expected_names: BTreeSet<&str> = p.expect.iter().map(|(n, _)| n.as_str()).collect();
    for m in &maps {
        let gpath = PathBuf::from(m.display().to_string().trim_end_matches(".map").to_string());
        let rel = gpath.strip_prefix(root).unwrap().display().to_string();
        let gtext = std::fs::read_to_string(&gpath).unwrap_or_default();
        let segs = std::fs::read_to_string(m).ok().and_then(|t| serde_json::from_str::<J>(&t).ok()).and_then(|j| j.get("mappings").and_then(|x| x.as_str()).map(|x| x.to_string())).and_then(|x| decode(&x).ok()).unwrap_or_default();
        let at: BTreeSet<(i64, i64)> = segs.iter().filter(|s| s.name.is_some()).map(|s| (s.gl, s.gc)).collect();
        for (ln, line) in gtext.split('\n').enumerate() {
            let t = line.trim_start();
            let indent = line.len() - t.len();
            let mut site: Option<(usize, String, &str)> = None; // byte offset of the identifier, identifier, kind
            for kw in ["export type ", "type ", "export declare const ", "declare const ", "export const ", "const "] {
                if let Some(rest) = t.strip_prefix(kw) {
                    let id: String = rest.chars().take_while(|c| is_name_char(*c)).collect();
                    if !id.is_empty() {
                        site = Some((indent + kw.len(), id, "type or constant"));
                    }
                    break;
                }
            }
            if site.is_none() {
                let (skip, rest) = match t.strip_prefix("readonly ") { Some(r) => (9, r), None => (0, t) };
                let id: String = rest.chars().take_while(|c| is_name_char(*c)).collect();
                let after = &rest[id.len()..];
                if !id.is_empty() && (after.starts_with(':') || after.starts_with("?:")) {
                    site = Some((indent + skip, id, "property"));
                }
            }
            let Some((off, id, what)) = site else { continue };
            // schema output: schema types and fields; operation outputs: operations and fragments only
            let is_schema_file = p.schema_output.as_ref().map(|so| rel == *so).unwrap_or(false);
            if !is_schema_file && what == "property" {
                continue;
            }
            let expected_names: BTreeSet<&str> = p.expect.iter().filter(|(_, f)| is_schema_src(f) == is_schema_file).map(|(n, _)| n.as_str()).collect();
            // which expected definition does the identifier declare?  the name itself, or an operation / fragment name
            // followed by a configured suffix (Result, Variables, Query, Mutation, ..)
            let base = expected_names.iter().filter(|n| id == **n || (what == "type or constant" && id.starts_with(**n) && p.expect.iter().any(|(x, f)| x == *n && !is_schema_src(f)))).max_by_key(|n| n.len());
            let Some(base) = base else { continue };
            let col = u16len(&line[..off]) as i64;
            if !at.contains(&(ln as i64, col)) {
                fail(
                    format!("a generated {what} identifier that declares a GraphQL definition carries no named segment"),
                    format!("{rel}:{}:{}: `{}` declares {base} but no named segment starts there; line: {:?}", ln + 1, col + 1, id, line.chars().take(100).collect::<String>()),
                    String::new(),
                );
            }
        }
    }
    // every expected definition carries a segment into its own file
    for (name, file) in &p.expect {
        if !covered.contains(&(name.clone(), file.clone())) {
            let elsewhere: Vec<&(String, String)> = covered.iter().filter(|(n, _)| n == name).collect();
            let what = if is_schema_src(file) { "schema type / field" } else { "operation / fragment" };
            let imported = p.label.contains("operations=imported") && file.contains("frags");
            let astral = p.files.iter().filter(|(f, _)| f == file).any(|(_, t)| t.split('\n').any(|l| l.chars().any(|c| c.len_utf16() == 2) && l.split(|c: char| !is_name_char(c)).any(|w| w == name)));
            fail(
                format!("no segment leads from the generated identifier to the GraphQL definition of a {what}{}{}", if imported { " (imported fragment)" } else { "" }, if astral { " [non-BMP character on the source line]" } else { "" }),
                format!("{name} defined in {file}: no segment with that name whose generated text starts with it and whose original position is the name / its definition's keyword in {file} (segments for that name elsewhere: {elsewhere:?})"),
                String::new(),
            );
        }
    }
}

fn main() {
    let args: Vec<String> = std::env::args().collect();
    let thorough = args.get(1).map(|a| a == "thorough").unwrap_or(false);
    let only: Option<usize> = args.iter().position(|a| a == "--one").and_then(|i| args.get(i + 1)).and_then(|x| x.parse().ok());
    let cli = std::env::var("VX_CLI").unwrap_or_default();
    let tmp = std::env::temp_dir().join(format!("vx-srcmap-{}", std::process::id()));
    let mut failures = vec![];
    let mut stats = (0usize, 0usize);
    let mut evaluations = 0;
    let mut samples = vec![];
    for (i, p) in projects(thorough).iter().enumerate() {
        if let Some(o) = only {
            if o != i {
                continue;
            }
        }
        evaluations += 1;
        if samples.len() < 6 && i % 7 == 0 {
            samples.push(format!("[#{i}] {}", p.label));
        }
        check_project(&cli, i, p, &tmp.join(format!("p{i}")), &mut failures, &mut stats);
        if std::env::var("VX_KEEP").is_err() {
            let _ = std::fs::remove_dir_all(tmp.join(format!("p{i}")));
        }
    }
    if std::env::var("VX_KEEP").is_err() {
        let _ = std::fs::remove_dir_all(&tmp);
    } else {
        eprintln!("kept {}", tmp.display());
    }
    let mut signatures: BTreeMap<String, usize> = BTreeMap::new();
    for f in &failures {
        *signatures.entry(f.signature.clone()).or_default() += 1;
    }
    let mut seen: BTreeMap<String, usize> = BTreeMap::new();
    let shown: Vec<J> = failures
        .iter()
        .filter(|f| {
            let c = seen.entry(f.signature.clone()).or_default();
            *c += 1;
            *c <= 2
        })
        .take(40)
        .map(|f| serde_json::json!({"signature": f.signature, "family": "projects", "index": f.index, "graphql": f.project, "definition": "(project)", "why": f.why, "got": f.got}))
        .collect();
    println!(
        "{}",
        serde_json::json!({
            "evaluations": evaluations, "distinct_nontrivial": evaluations, "per_family": {"projects": evaluations, "maps_read": stats.0, "segments_checked": stats.1},
            "samples": samples, "failure_count": failures.len(), "signatures": signatures, "failures": shown,
        })
    );
}
